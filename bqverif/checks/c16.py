"""C16 — text and CSV rendering are aligned, complete and faithful to the values.

Oracle: R6 readers that parse the rendered text back (column offsets from the rule
line / box corners, cell texts, numbers, currencies) and compare with the values;
icontract post-condition on the real render_text (rectangular output) active in
every call; CSV fields compared with the text renderer's cells.
"""
import csv
import datetime
import io
import itertools
import re
from decimal import Decimal

from .. import engine
from ..values import show_rows

ID = 'C16'
LEVEL = 'exploration'
RULE = ('Generated result tables over every renderer datatype (int, decimal incl. exponents > 0 and < -6, str incl. non-ASCII, date, '
        'bool, set, dict/object, Amount, Position with and without cost, Inventory with 0-6 currencies and several lots) with NULLs, '
        'negative numbers, mixed precisions, empty results and empty inventories, rendered with all 2^5 combinations of boxed, unicode, '
        'spaced, expand, narrow x nullvalue in {"", "NULL", "-"} x two list separators on fixed-shape tables and with random option '
        'sets on random tables, as text and as CSV. Distinct by (table digest, options); non-trivial when the table has >= 2 rows and '
        '>= 2 columns.')
ASSUMPTIONS = [
    'numbers Python prints in scientific notation are exempt from decimal-point alignment (not from width/read-back)',
    'a row whose every cell is an empty multi-valued value under expand may produce 0 or 1 lines',
    'strings are generated without leading/trailing blanks (padding is indistinguishable from them)',
    'amount-like columns only hold currencies known to the display context',
]
D = Decimal
CURRENCIES = ['USD', 'EUR', 'HOOL', 'VTI', 'JPY', 'BTC']


class PostBroken(Exception):
    pass


_evals = [0]


def install_contract():
    from ..core import ensure_deps
    ensure_deps()
    import icontract
    from beanquery import query_render
    if getattr(query_render, '_bqv_contract', False):
        return
    orig = query_render.render_text

    def render_text(columns, rows, dcontext, file, **kwargs):
        tee = io.StringIO()
        result = orig(columns, rows, dcontext, tee, **kwargs)
        text = tee.getvalue()
        file.write(text)
        _evals[0] += 1
        widths = {len(line) for line in text.splitlines()}
        if len(widths) > 1:
            raise PostBroken(f'render_text wrote lines of different widths {sorted(widths)}')
        return result
    query_render.render_text = render_text
    query_render._bqv_contract = True


def dcontext_for(rng):
    from beancount.core import display_context
    dc = display_context.DisplayContext()
    prec = {'USD': '1.00', 'EUR': '1.00', 'HOOL': '1', 'VTI': '1.000', 'JPY': '1', 'BTC': '1.00000000'}
    for cur, p in prec.items():
        for _ in range(3):
            dc.update(D(p), cur)
    return dc


def gen_table(rng, kinds=None, nrows=None):
    from beancount.core import amount, position, inventory
    from beancount.core.data import Cost
    from beanquery import Column
    all_kinds = ['int', 'decimal', 'str', 'date', 'bool', 'set', 'dict', 'object', 'amount', 'position', 'inventory', 'cost', 'meta']
    from beanquery.sources import beancount as _src
    wide = kinds is None and rng.random() < 0.05       # now and then: many columns, many rows, long and large values
    if kinds is None:
        kinds = [rng.choice(all_kinds) for _ in range(rng.randint(1, 5) if not wide else rng.randint(6, 12))]
    dtypes = {'int': int, 'decimal': Decimal, 'str': str, 'date': datetime.date, 'bool': bool, 'set': set, 'dict': dict, 'object': object,
              'amount': amount.Amount, 'position': position.Position, 'inventory': inventory.Inventory, 'cost': Cost, 'meta': _src.Metadata}
    names = []
    for i, k in enumerate(kinds):
        names.append(rng.choice([f'c{i}', k, f'a_rather_long_column_name_{i}', 'x', f'sum({k})', 'é']))
    desc = tuple(Column(n, dtypes[k]) for n, k in zip(names, kinds))
    ncur = rng.choice([1, 2, 3, 6])
    curs = rng.sample(CURRENCIES, ncur)
    nullp = rng.choice([0, 0.2, 0.5])

    beyond = wide and rng.random() < 0.15      # numbers with more than 12 integer digits (see known finding c16.amount_beyond_display_context_range)

    def num():
        if beyond and rng.random() < 0.3:
            return rng.choice([D('123456789012345.67'), D('-98765432109876.5'), D('1E+15'), D('1000000000000')])
        if wide and rng.random() < 0.3:
            return rng.choice([D('99999999999.99'), D('-12345678901.5'), D('0.000000000123'), D('1E+11'), D('99999999.99999999'), D('999999999999')])
        return rng.choice([D('0'), D('1'), D('-2.5'), D('100.12'), D('0.001'), D('12345.678'), D('3.10'), D('-7'), D('1234567.891')])

    def value(k):
        if rng.random() < nullp:
            return None
        if k == 'int':
            return rng.choice([0, 1, -1, 42, -1000, 123456789])
        if k == 'decimal' and rng.random() < 0.04:
            return rng.choice([D('NaN'), D('Infinity'), D('-Infinity')])       # decimal("NaN") is a value a query can produce
        if k == 'decimal':
            return rng.choice([D('0'), D('1'), D('-2.5'), D('100.120'), D('0.001'), D('1E+2'), D('1.5E+3'), D('1E-8'), D('-0.00001234'), D('12345.678'), D('-7')])
        if k == 'str' and wide and rng.random() < 0.4:
            return rng.choice(['lorem ipsum dolor sit amet ' * rng.randint(2, 8), 'Assets:' + ':'.join(f'Level{i}' for i in range(rng.randint(5, 14))), 'ü' * rng.randint(40, 90)])
        if k == 'str':
            return rng.choice(['a', '', 'hello world', 'Assets:Bank:Checking', 'é à ü', 'x' * 30, 'a,b', 'with "quotes"', 'tab\there' if False else 'semi;colon'])
        if k == 'date':
            return datetime.date(rng.choice([1999, 2020, 2100]), rng.randint(1, 12), rng.randint(1, 28))
        if k == 'bool':
            return rng.random() < 0.5
        if k == 'set':
            return frozenset(rng.sample(['alpha', 'b', 'c-c', 'dd', 'trip'], rng.randint(0, 3)))
        if k == 'dict':
            return rng.choice([{}, {'a': 1}, {'k': 'v', 'n': D('1.5')}])
        if k == 'meta':
            # directive metadata: the parser's position keys are not shown, every other key is (also keys that resemble them)
            m = {'filename': '/tmp/x.beancount', 'lineno': rng.randint(1, 99)}
            for key in rng.sample(['name', 'file', 'line', 'no', 'lin', 'note', 'isin', 'ref', 'filenames', 'lineno2', 'e'], rng.randint(0, 4)):
                m[key] = rng.choice(['Hooli Inc.', D('1.5'), 7, True, datetime.date(2020, 1, 2)])
            if rng.random() < 0.3:
                m['__tolerances__'] = {}
            return m
        if k == 'object':
            return rng.choice([D('2.5'), 'text', 7, datetime.date(2020, 1, 1), True])
        if k == 'amount':
            return amount.Amount(num(), rng.choice(curs))
        if k == 'cost':
            return Cost(abs(num()) + 1, rng.choice(['USD', 'EUR']), rng.choice([None, datetime.date(2020, 1, 2)]), rng.choice([None, 'lot']))
        if k == 'position':
            cost = Cost(abs(num()) + 1, rng.choice(['USD', 'EUR']), datetime.date(2020, 1, rng.randint(1, 28)), rng.choice([None, 'lbl'])) if rng.random() < 0.5 else None
            return position.Position(amount.Amount(num(), rng.choice(curs)), cost)
        inv = inventory.Inventory()
        for _ in range(rng.randint(0, 4) if not wide else rng.randint(5, 18)):
            cost = Cost(D(rng.randint(1, 99)), 'USD', datetime.date(2020, 1, rng.randint(1, 28)), None) if rng.random() < 0.4 else None
            inv.add_amount(amount.Amount(rng.choice([D('1'), D('2.5'), D('-3'), D('10.001'), D('1000')]), rng.choice(curs)), cost)
        return inv
    if nrows is None:
        nrows = rng.choice([0, 1, 2, 4, 7]) if not wide else rng.choice([3, 45, 130])
    rows = [tuple(value(k) for k in kinds) for _ in range(nrows)]
    return desc, rows, kinds


# ---------------------------------------------------------------------------
# readers

def layout(lines, boxed, unicode_):
    """-> list of (start, width) per column, derived from the rule line."""
    if boxed:
        rule = lines[0]
        fill = '─' if unicode_ else '-'
        seps = ('┌', '┬', '┐') if unicode_ else ('+', '+', '+')
        cols = []
        pos = 0
        for seg in re.finditer(re.escape(fill) + '+', rule):
            cols.append((seg.start() + 1, seg.end() - seg.start() - 2))
        return cols
    rule = lines[1]
    fill = '─' if unicode_ else '-'
    return [(m.start(), m.end() - m.start()) for m in re.finditer(re.escape(fill) + '+', rule)]


def expected_text(v, kind, dc, listsep):
    """Expected stripped cell text for simple datatypes (None = not decided here)."""
    if kind == 'int':
        return str(v)
    if kind == 'str':
        return v
    if kind == 'bool':
        return 'TRUE' if v else 'FALSE'
    if kind == 'date':
        return v.isoformat()
    if kind == 'set':
        return listsep.join(sorted(v))
    if kind in ('dict', 'object'):
        return str(v)
    if kind == 'meta':
        return str({k: x for k, x in v.items() if k not in ('filename', 'lineno') and not k.startswith('__')})
    return None


NUM_CUR = re.compile(r'(-?[0-9][0-9,]*(?:\.[0-9]+)?(?:E[+-]?[0-9]+)?)\s+([A-Z][A-Z0-9]*)')


def read_amounts(text):
    """All (number, currency) pairs readable in a cell text, in order."""
    return [(D(m.group(1).replace(',', '')), m.group(2)) for m in NUM_CUR.finditer(text)]


def expected_amounts(v, kind, dc):
    out = []
    if kind == 'amount':
        out.append((dc.quantize(v.number, v.currency), v.currency))
    elif kind == 'cost':
        out.append((dc.quantize(v.number, v.currency), v.currency))
    elif kind == 'position':
        out.append((dc.quantize(v.units.number, v.units.currency), v.units.currency))
        if v.cost is not None:
            out.append((dc.quantize(v.cost.number, v.cost.currency), v.cost.currency))
    elif kind == 'inventory':
        for p in v.get_positions():
            out.append((dc.quantize(p.units.number, p.units.currency), p.units.currency))
            if p.cost is not None:
                out.append((dc.quantize(p.cost.number, p.cost.currency), p.cost.currency))
    return out


def raise_mech(what, exc, rows):
    """Mechanism of an exception escaping a renderer. Only a decimal InvalidOperation on a table that really holds an
    amount of 10^12 or more is the known range limit of the display context; anything else is reported as such."""
    from decimal import InvalidOperation
    from beancount.core import amount, position, inventory
    from beancount.core.data import Cost

    def numbers(v):
        if isinstance(v, amount.Amount):
            yield v.number
        elif isinstance(v, position.Position):
            yield v.units.number
            if v.cost is not None:
                yield v.cost.number
        elif isinstance(v, Cost):
            yield v.number
        elif isinstance(v, inventory.Inventory):
            for p in v.get_positions():
                yield from numbers(p)
    if isinstance(exc, InvalidOperation) and any(n is not None and abs(n) >= 10 ** 12 for r in rows for c in r for n in numbers(c)):
        return 'c16.amount_beyond_display_context_range'
    return f'c16.{what}_raised.{type(exc).__name__}'


def check_text(ctx, desc, rows, kinds, dc, opts, case, route='direct'):
    from beanquery import query_render
    out = io.StringIO()
    try:
        if route == 'plugin':
            # the way the shell and `bean-query --format text` reach the renderer
            import importlib
            plug = importlib.import_module('beanquery.render.text')
            plug.render(desc, rows, out, dcontext=dc, **opts)
            ctx.count('obs.text_renderings_plugin_route')
            if not rows:
                if out.getvalue() != '(empty)\n':
                    ctx.violation('c16.plugin_empty_marker', f'text plug-in wrote {out.getvalue()!r} for an empty result', case)
                return None
        else:
            query_render.render_text(desc, rows, dc, out, **opts)
    except PostBroken as exc:
        ctx.violation('c16.not_rectangular', f'{exc}', case)
        return None
    except Exception as exc:  # noqa: BLE001
        ctx.violation(raise_mech('render_text', exc, rows), f'render_text raised {type(exc).__name__}: {exc}', case)
        ctx.count('obs.renderer_refusals')
        if out.getvalue():
            # whatever follows on the same output (the next statement of a shell session) would be preceded by this fragment
            ctx.violation('c16.partial_output_after_refusal', f'render_text raised {type(exc).__name__} after having written {out.getvalue()[:60]!r}', case)
        return None
    text = out.getvalue()
    lines = text.split('\n')
    if lines and lines[-1] == '':
        lines.pop()
    boxed, uni, spaced, expand, narrow = opts['boxed'], opts['unicode'], opts['spaced'], opts['expand'], opts['narrow']
    null, listsep = opts['nullvalue'], opts['listsep']
    ctx.count('obs.text_renderings')
    if len({len(l) for l in lines}) > 1:
        ctx.violation('c16.not_rectangular', f'lines of different widths {sorted({len(l) for l in lines})}', case)
        return None
    cols = layout(lines, boxed, uni)
    if len(cols) != len(desc):
        ctx.violation('c16.layout', f'{len(cols)} columns in the rule line for {len(desc)} described columns', case)
        return None
    # frame
    if boxed:
        c = ('┌', '┐', '└', '┘', '│', '├', '┤') if uni else ('+', '+', '+', '+', '|', '+', '+')
        top, hline, bottom = lines[0], lines[2], lines[-1]
        if not (top[0] == c[0] and top[-1] == c[1] and bottom[0] == c[2] and bottom[-1] == c[3] and hline[0] == c[5] and hline[-1] == c[6]):
            ctx.violation('c16.box_not_closed', 'box corners/edges are not closed', case)
            return None
        body = lines[3:-1]
        header = lines[1]
        for l in [header] + body:
            if l[0] != c[4] or l[-1] != c[4]:
                ctx.violation('c16.box_not_closed', f'line without box edges: {l!r}', case)
                return None
    else:
        header = lines[0]
        body = lines[2:]
    # header: centred, cut only in narrow mode
    for (start, w), col in zip(cols, desc):
        cell = header[start:start + w]
        name = col.name
        exp = name[:w].center(w)
        if cell != exp:
            ctx.violation('c16.header', f'header cell {cell!r} for column {name!r} width {w}, expected {exp!r}', case)
            return None
        if not narrow and len(name) > w:
            ctx.violation('c16.header_cut', f'header {name!r} cut to {w} although narrow is off', case)
            return None
    # body lines -> rows
    cells_by_line = [[l[start:start + w] for start, w in cols] for l in body]
    # separators between columns must not carry data
    for l in body:
        for (s1, w1), (s2, w2) in zip(cols, cols[1:]):
            gap = l[s1 + w1:s2]
            if gap.strip(' |│'):
                ctx.violation('c16.column_offsets', f'data outside the column boundaries: {l!r}', case)
                return None
    # group lines per row
    idx = 0
    per_row = []
    for r in rows:
        if expand:
            # every cell that is not a (non-NULL) inventory takes one line; a row made of empty inventories only takes none or one
            n = max((len(v.get_positions()) if (k == 'inventory' and v is not None) else 1) for v, k in zip(r, kinds))
        else:
            n = 1
        per_row.append(n)
    total_min = sum(max(n, 0) for n in per_row) + (len(rows) if spaced else 0)
    # an all-empty expanded row may give 0 or 1 lines
    flexible = sum(1 for n, r in zip(per_row, rows) if n == 0)
    if not (total_min <= len(body) <= total_min + flexible):
        ctx.violation('c16.line_count', f'{len(body)} body lines for {len(rows)} rows (expected {total_min}..{total_min + flexible}; expand={expand}, spaced={spaced})', case)
        return None
    if flexible:
        return text            # cannot attribute lines to rows unambiguously
    li = 0
    dot_positions = [set() for _ in cols]
    inner_points = [dict() for _ in cols]
    for r, n in zip(rows, per_row):
        chunk = cells_by_line[li:li + n]
        li += n
        if spaced:
            spacer = cells_by_line[li]
            li += 1
            if any(c.strip() for c in spacer):
                ctx.violation('c16.spacing_row', f'spacing row is not empty: {spacer!r}', case)
                return None
        for ci, (v, k) in enumerate(zip(r, kinds)):
            texts = [line[ci] for line in chunk]
            first = texts[0]
            ctx.count('obs.cells_read_back')
            if v is None:
                if first.strip() != null.strip() or any(t.strip() for t in texts[1:]):
                    ctx.violation('c16.null_placeholder', f'NULL rendered as {first!r}, placeholder is {null!r}', case)
                    return None
                continue
            exp = expected_text(v, k, dc, listsep)
            if exp is not None:
                if first.strip() != exp.strip():
                    ctx.violation(f'c16.cell_text.{k}', f'{k} value {v!r} rendered as {first!r}, expected {exp!r}', case)
                    return None
                continue
            if k == 'decimal':
                s = first.strip()
                try:
                    back = D(s)
                except Exception:  # noqa: BLE001
                    back = None
                if back is None or back.as_tuple() != v.as_tuple():
                    ctx.violation('c16.cell_text.decimal', f'decimal {v!r} rendered as {first!r}', case)
                    return None
                if v.is_finite() and v.as_tuple().exponent <= 0 and 'E' not in s:
                    dot_positions[ci].add(first.find('.') if '.' in first else len(first.rstrip()))
                continue
            joined = ' '.join(texts)
            got = read_amounts(joined)
            want = expected_amounts(v, k, dc)
            if sorted(got, key=str) != sorted(want, key=str):
                ctx.violation(f'c16.cell_text.{k}', f'{k} value {v} rendered as {texts!r}: read back {got}, expected {want}', case)
                return None
            if k == 'inventory' and expand and len(chunk) < len(v.get_positions()):
                ctx.violation('c16.expand', f'inventory with {len(v.get_positions())} positions rendered on {len(chunk)} lines', case)
                return None
            if k == 'amount':
                m = re.search(r'-?[0-9][0-9,]*', first)
                if m:
                    dot_positions[ci].add(m.end())     # offset right after the integer digits = where the decimal point is/would be
            if k in ('position', 'inventory'):
                # amounts inside position / inventory cells: the decimal point of the units (and of the cost) of a commodity
                # is at the same offset in every row
                for line_no, t in enumerate(texts):
                    seen_slot = {}
                    depth = 0
                    for m in re.finditer(r'[{}]|(-?[0-9][0-9,]*)(?:\.[0-9]+)?\s+([A-Z][A-Z0-9]*)', t):
                        if m.group(0) == '{':
                            depth += 1
                            continue
                        if m.group(0) == '}':
                            depth -= 1
                            continue
                        cur = m.group(2)
                        if depth == 0:
                            ordinal = seen_slot.get(cur, 0)
                            seen_slot[cur] = ordinal + 1
                            last_units = (cur, ordinal if not expand else 0)
                            key = (('units', cur), last_units[1])
                        else:
                            # the cost belongs to the lot whose units were read last
                            key = (('cost', last_units[0]), last_units[1])
                        inner_points[ci].setdefault(key, set()).add(m.end(1))
    for ci, pos in enumerate(dot_positions):
        if len(pos) > 1 and kinds[ci] in ('decimal', 'amount'):
            ctx.violation('c16.decimal_alignment', f'column {desc[ci].name}: decimal points at offsets {sorted(pos)}', case)
            return None
    for ci, slots in enumerate(inner_points):
        if kinds[ci] == 'inventory' and not expand:
            # the tabular layout is only used for at most 5 commodity slots; beyond that positions are simply joined
            nslots = sum(max(sum(1 for p in v.get_positions() if p.units.currency == c) for v in (r[ci] for r in rows) if v is not None)
                         for c in {p.units.currency for r in rows if r[ci] is not None for p in r[ci].get_positions()}) if any(r[ci] is not None for r in rows) else 0
            if nslots > 5:
                continue
        for key, pos in slots.items():
            ctx.count('obs.inner_alignment_slots')
            if len(pos) > 1:
                ctx.violation('c16.decimal_alignment_inside_cells', f'column {desc[ci].name} ({kinds[ci]}): the {key[0][0]} amount of {key[0][1]} (lot {key[1]}) has its decimal point at offsets {sorted(pos)} in different rows', case)
                return None
    return text


def check_csv(ctx, desc, rows, kinds, dc, opts, case, text_cells=None, route='direct'):
    from beanquery import query_render
    out = io.StringIO()
    try:
        if route == 'plugin':
            import importlib
            plug = importlib.import_module('beanquery.render.csv')
            plug.render(desc, rows, out, dcontext=dc, expand=opts['expand'], nullvalue=opts['nullvalue'])
            ctx.count('obs.csv_renderings_plugin_route')
        else:
            query_render.render_csv(desc, rows, dc, out, expand=opts['expand'], nullvalue=opts['nullvalue'])
    except Exception as exc:  # noqa: BLE001
        ctx.violation(raise_mech('render_csv', exc, rows), f'render_csv raised {type(exc).__name__}: {exc}', case)
        ctx.count('obs.renderer_refusals')
        if out.getvalue():
            ctx.violation('c16.partial_output_after_refusal', f'render_csv raised {type(exc).__name__} after having written {out.getvalue()[:60]!r}: a header without records', case)
        return
    recs = list(csv.reader(io.StringIO(out.getvalue())))
    ctx.count('obs.csv_renderings')
    if not recs or recs[0] != [c.name for c in desc]:
        ctx.violation('c16.csv_header', f'CSV header {recs[:1]} expected {[c.name for c in desc]}', case)
        return
    if any(len(r) != len(desc) for r in recs):
        ctx.violation('c16.csv_field_count', f'CSV record with {sorted({len(r) for r in recs})} fields for {len(desc)} columns', case)
        return
    body = recs[1:]
    expand = opts['expand']
    per_row = []
    for r in rows:
        n = 1
        if expand:
            n = max((len(v.get_positions()) if (k == 'inventory' and v is not None) else 1) for v, k in zip(r, kinds))
        per_row.append(n)
    flexible = sum(1 for n in per_row if n == 0)
    total = sum(per_row)
    if not (total <= len(body) <= total + flexible):
        ctx.violation('c16.csv_record_count', f'{len(body)} CSV records for {len(rows)} rows (expected {total})', case)
        return
    if flexible:
        return
    li = 0
    for r, n in zip(rows, per_row):
        chunk = body[li:li + n]
        li += n
        for ci, (v, k) in enumerate(zip(r, kinds)):
            first = chunk[0][ci]
            if v is None:
                if first != opts['nullvalue']:
                    ctx.violation('c16.csv_null', f'NULL rendered as {first!r} in CSV, placeholder {opts["nullvalue"]!r}', case)
                    return
                continue
            exp = expected_text(v, k, dc, ',')
            if exp is not None:
                if first.strip() != exp.strip():
                    ctx.violation(f'c16.csv_field.{k}', f'{k} value {v!r} rendered as {first!r} in CSV, expected {exp!r}', case)
                    return
            elif k == 'decimal':
                if D(first.strip()).as_tuple() != v.as_tuple():
                    ctx.violation('c16.csv_field.decimal', f'decimal {v!r} rendered as {first!r} in CSV', case)
                    return
            else:
                got = read_amounts(' '.join(c[ci] for c in chunk))
                want = expected_amounts(v, k, dc)
                if sorted(got, key=str) != sorted(want, key=str):
                    ctx.violation(f'c16.csv_field.{k}', f'{k} value {v} rendered as {[c[ci] for c in chunk]!r} in CSV: read back {got}, expected {want}', case)
                    return


def option_sets():
    out = []
    for boxed, uni, spaced, expand, narrow in itertools.product([False, True], repeat=5):
        for null in ('', 'NULL', '-'):
            for sep in (', ', '  '):
                out.append({'boxed': boxed, 'unicode': uni, 'spaced': spaced, 'expand': expand, 'narrow': narrow, 'nullvalue': null, 'listsep': sep})
    return out


def run_one(ctx, rng, desc, rows, kinds, dc, opts, label):
    case = {'label': label, 'options': opts, 'description': [(c.name, getattr(c.datatype, '__name__', str(c.datatype))) for c in desc],
            'rows': show_rows(rows, 10)}
    ctx.case((repr(case['description']), repr(case['rows']), repr(sorted(opts.items()))), len(rows) >= 2 and len(desc) >= 2)
    if len(ctx.samples) < 3 and len(rows) >= 2 and len(desc) >= 2:
        ctx.sample(case)
    # the renderer itself, called with keywords, or through the format plug-in the shell uses (which adds the "(empty)"
    # convention for empty results)
    route = 'plugin' if rng.random() < 0.35 else 'direct'
    case['route'] = route
    check_text(ctx, desc, rows, kinds, dc, opts, case, route=route)
    check_csv(ctx, desc, rows, kinds, dc, opts, case, route=route)


def random_case(ctx, n):
    rng = ctx.rng('random', n)
    dc = dcontext_for(rng)
    desc, rows, kinds = gen_table(rng)
    allopts = option_sets()
    for _ in range(ctx.pick(4, 8)):
        run_one(ctx, rng, desc, rows, kinds, dc, rng.choice(allopts), f'random/{n}')
    ctx.count('random.tables')


def run(ctx):
    engine.bq()
    install_contract()
    # all option sets on fixed-shape tables
    rng = ctx.rng('fixed')
    dc = dcontext_for(rng)
    shapes = [['int', 'decimal', 'str', 'date', 'bool'], ['amount', 'position', 'inventory'], ['set', 'dict', 'object', 'cost'],
              ['str', 'inventory', 'decimal'], ['inventory'], ['decimal']]
    allopts = option_sets()
    idx = 0
    for si, shape in enumerate(shapes):
        for rep in range(ctx.pick(1, 4)):
            trng = ctx.rng('fixed', si, rep)
            desc, rows, kinds = gen_table(trng, kinds=shape, nrows=trng.choice([2, 4, 6]))
            for oi, opts in enumerate(allopts):
                idx += 1
                if not ctx.mine(idx):
                    continue
                run_one(ctx, trng, desc, rows, kinds, dc, opts, f'fixed/{si}/{rep}/{oi}')
                ctx.seen('option_sets', oi)
                ctx.count('fixed.executed')
    for n in range(ctx.pick(1200, 20000)):
        if ctx.out_of_time():
            break
        random_case(ctx, n)
    ctx.count('obs.contract_evaluations', _evals[0])


def replay(ctx, case):
    engine.bq()
    install_contract()
    label = (case or {}).get('label', '')
    if label.startswith('random/'):
        random_case(ctx, int(label.split('/')[1]))
    else:
        print('fixed case: re-run the check; case:', case)


def finalize(merged):
    c = merged['counters']
    reasons = []
    if c.get('obs.text_renderings_plugin_route', 0) == 0 or c.get('obs.csv_renderings_plugin_route', 0) == 0:
        reasons.append('nothing rendered through the format plug-ins')
    for k in ('obs.text_renderings', 'obs.csv_renderings', 'obs.cells_read_back', 'obs.contract_evaluations', 'fixed.executed'):
        if c.get(k, 0) == 0:
            reasons.append(f'{k} == 0')
    if len(merged['sets'].get('option_sets', ())) < 192:
        reasons.append(f"only {len(merged['sets'].get('option_sets', ()))} of 192 option sets executed on the fixed tables")
    merged['extra']['option_sets_covered'] = len(merged['sets'].get('option_sets', ()))
    return reasons

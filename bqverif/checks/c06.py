"""C06 — parsing inverts printing; the shipped parser is the grammar's parser.

Round trip oracle: AST a --G4 printer(style)--> text --real parser--> must equal a
(dataclass equality plus strict literal type/exponent equality).
Differential oracle: the shipped parser and a parser derived at check time from the
published grammar file agree on every text (same AST, or both reject at the same
position).
"""
import dataclasses
import datetime
import enum
import itertools
import random
import types as pytypes
from decimal import Decimal

from .. import engine, ir, syngen
from ..values import same

ID = 'C06'
LEVEL = 'exploration'
EXHAUSTIVE = True
RULE = ('Systematic matrix: every parent operator x child operator x operand position (binary, unary, BETWEEN, AND/OR, call '
        'argument) printed with minimal and with redundant parentheses must parse back to exactly that tree. Random part: random '
        'SELECT / BALANCES / JOURNAL / PRINT statements with every clause combination, every literal form, attribute/subscript '
        'chains, placeholders, sub-selects and all FROM forms, each in 4 renderings (minimal, redundant parentheses, mixed case, '
        'random whitespace + comments). Literal spellings (leading zeros, `1.`, `.5`, both quote styles, year 0001, 30-digit '
        'integers). Identifiers containing or starting with reserved words in every syntactic position. Differential part: '
        'all those texts plus token-level mutations of them through the shipped parser and a parser generated from bql.ebnf at '
        'check time. Distinct by text; non-trivial when the statement contains an operator applied to an operator or >= 3 clauses.')
ASSUMPTIONS = [
    'ASTs not expressible in the grammar are not generated (attribute access on a non-primary, negative literals, lists with '
    'signed numbers, empty lists, strings containing both quote characters)',
    'TatSu 5.7.4 code generation is trusted for the grammar-derived parser',
]


def ast_same(a, b):
    """Dataclass equality plus strict equality of literal values (type, Decimal exponent)."""
    if dataclasses.is_dataclass(a) and dataclasses.is_dataclass(b):
        if type(a) is not type(b):
            return False
        for f in dataclasses.fields(a):
            if f.name == 'parseinfo':
                continue
            if not ast_same(getattr(a, f.name), getattr(b, f.name)):
                return False
        return True
    if isinstance(a, list) and isinstance(b, list):
        return len(a) == len(b) and all(ast_same(x, y) for x, y in zip(a, b))
    if isinstance(a, enum.Enum) or isinstance(b, enum.Enum):
        return a is b
    return same(a, b)


_derived = {}


def derived_parser():
    """A parser generated from the published grammar file, with the real semantic actions."""
    if 'cls' not in _derived:
        import tatsu
        from beanquery import parser as bqparser
        import os
        path = os.path.join(os.path.dirname(bqparser.__file__), 'bql.ebnf')
        with open(path) as f:
            grammar = f.read()
        src = tatsu.to_python_sourcecode(grammar)
        with open(os.path.join(os.path.dirname(bqparser.__file__), 'parser.py')) as f:
            _derived['identical_source'] = (f.read() == src)
        mod = pytypes.ModuleType('bqv_derived_parser')
        exec(compile(src, 'bqv_derived_parser.py', 'exec'), mod.__dict__)
        _derived['cls'] = mod.BQLParser
    return _derived['cls']


def parse_shipped(text):
    from beanquery import parser
    try:
        return ('ok', parser.parse(text))
    except parser.ParseError as exc:
        return ('err', exc.parseinfo.pos)
    except Exception as exc:  # noqa: BLE001
        return ('exc', type(exc).__name__, str(exc)[:80])


def parse_derived(text):
    import tatsu
    from beanquery import parser
    try:
        return ('ok', derived_parser()().parse(text, semantics=parser.BQLSemantics()))
    except tatsu.exceptions.ParseError as exc:
        return ('err', exc.pos)
    except parser.ParseError as exc:
        # raised by the semantic actions themselves (invalid calendar date)
        return ('err', exc.parseinfo.pos)
    except Exception as exc:  # noqa: BLE001
        return ('exc', type(exc).__name__, str(exc)[:80])


def styles(rng):
    s1 = ir.Style()
    s2 = ir.Style(rng=random.Random(rng.random()), parens='full')
    s3 = ir.Style(rng=random.Random(rng.random()), case='mixed', parens='random')
    s4 = ir.Style(rng=random.Random(rng.random()), space='random', comments=True, case=rng.choice(['upper', 'lower']))
    s5 = ir.Style(space='tight')
    return [('minimal', s1), ('redundant', s2), ('mixedcase', s3), ('whitespace+comments', s4), ('tight', s5)]


def classify_text(text):
    """Mechanism classification for the known reserved-word-prefix identifier defect."""
    import re
    words = ['not', 'and', 'or', 'in', 'is', 'as', 'asc', 'desc', 'by', 'true', 'false', 'null', 'select', 'from', 'where',
             'group', 'order', 'having', 'limit', 'pivot', 'distinct', 'open', 'close', 'clear', 'on', 'at', 'between',
             'balances', 'journal', 'print']
    if re.search(r'(?i)\b(' + '|'.join(words) + r')_[a-z0-9_]*', text):
        return 'c06.reserved_prefix_underscore_identifier'
    return None


def roundtrip(ctx, st, label, rng, nontrivial=True, only=None):
    exp = ir.stmt_ast(st)
    for sname, style in styles(rng):
        if only and sname not in only:
            continue
        try:
            text = ir.stmt_text(st, style)
        except ValueError:
            ctx.count('skipped.unprintable')
            return
        res = parse_shipped(text)
        ctx.case(text, nontrivial)
        ctx.count(f'obs.roundtrip.{sname}')
        case = {'label': label, 'style': sname, 'text': text}
        if res[0] == 'exc' and res[1] == 'RecursionError':
            # the recursive-descent parser ran into the interpreter's recursion limit (known finding: nesting depth)
            ctx.count('obs.recursion_limit_hits')
            ctx.violation('c06.parser_recursion_limit', f'{label}/{sname}: parse() raised RecursionError on the printed statement {text!r}', case)
        elif res[0] != 'ok':
            mech = classify_text(text) or 'c06.printed_statement_rejected'
            ctx.violation(mech, f'{label}/{sname}: printed statement rejected ({res[1:]}): {text!r}', case)
        elif not ast_same(res[1], exp):
            mech = classify_text(text) or 'c06.roundtrip_mismatch'
            ctx.violation(mech, f'{label}/{sname}: {text!r} parsed to {res[1]} expected {exp}', case)
        if sname == 'minimal' or label.startswith('random/'):
            differential(ctx, text, label)
        _pool.append(text)


_pool = []


def differential(ctx, text, label):
    a = parse_shipped(text)
    b = parse_derived(text)
    ctx.count('obs.differential_texts')
    ok = False
    if a[0] == 'ok' and b[0] == 'ok':
        ok = ast_same(a[1], b[1])
        ctx.count('obs.differential_both_accept')
    elif a[0] == b[0]:
        ok = a[1:] == b[1:]
        ctx.count('obs.differential_both_reject')
    if not ok:
        ctx.violation('c06.shipped_vs_grammar_parser',
                      f'{label}: shipped parser {a if a[0] != "ok" else "accepts"} / grammar-derived parser '
                      f'{b if b[0] != "ok" else "accepts"} on {text!r}', {'label': label, 'text': text})


# ---------------------------------------------------------------------------
# systematic matrix

def matrix_cases():
    A, B, C, Dd = (ir.col(n, None) for n in 'abcd')
    children = []
    for op in syngen.BINOPS:
        children.append((f'bin:{op}', lambda op=op: ir.bin_(op, ir.col('x', None), ir.col('y', None), None)))
    for op in syngen.UNOPS:
        children.append((f'un:{op}', lambda op=op: ir.un(op, ir.col('x', None), None)))
    children.append(('between', lambda: ir.between(ir.col('x', None), ir.col('y', None), ir.col('z', None))))
    children.append(('and', lambda: ir.and_(ir.col('x', None), ir.col('y', None))))
    children.append(('or', lambda: ir.or_(ir.col('x', None), ir.col('y', None))))
    children.append(('func', lambda: ir.func('f', [ir.col('x', None)], None)))
    children.append(('attr', lambda: ir.attr(ir.col('x', None), 'y', None)))
    children.append(('sub', lambda: ir.subscript(ir.col('x', None), 'k')))
    children.append(('lit', lambda: ir.lit(1, ir.T_INT)))
    children.append(('list', lambda: ir.lit([1, 2], ir.T_LIST)))
    out = []
    for cname, mk in children:
        for op in syngen.BINOPS:
            out.append((f'bin:{op}[0]<-{cname}', ir.bin_(op, mk(), B, None)))
            out.append((f'bin:{op}[1]<-{cname}', ir.bin_(op, A, mk(), None)))
            out.append((f'bin:{op}[0,1]<-{cname}', ir.bin_(op, mk(), mk(), None)))
        for op in syngen.UNOPS:
            out.append((f'un:{op}<-{cname}', ir.un(op, mk(), None)))
        for pos in range(3):
            args = [A, B, C]
            args[pos] = mk()
            out.append((f'between[{pos}]<-{cname}', ir.between(*args)))
            out.append((f'and[{pos}]<-{cname}', ir.and_(*args)))
            out.append((f'or[{pos}]<-{cname}', ir.or_(*args)))
        out.append((f'func<-{cname}', ir.func('g', [A, mk()], None)))
        if cname in ('attr', 'sub', 'func'):
            out.append((f'attr<-{cname}', ir.attr(mk(), 'w', None)))
            out.append((f'sub<-{cname}', ir.subscript(mk(), 'k')))
    return out


def literal_spellings():
    """(text of a literal, expected value) — spellings that must denote that value exactly."""
    D = Decimal
    out = [('NULL', None), ('null', None), ('Null', None), ('TRUE', True), ('true', True), ('tRuE', True),
           ('FALSE', False), ('false', False), ('0', 0), ('007', 7), ('00', 0), ('9' * 30, int('9' * 30)),
           ('1.', D('1')), ('.5', D('.5')), ('001.500', D('1.500')), ('0.0', D('0.0')), ('1.50', D('1.50')),
           ('123456789012345678901234567890.123', D('123456789012345678901234567890.123')),
           ('2020-01-31', datetime.date(2020, 1, 31)), ('0001-01-01', datetime.date(1, 1, 1)), ('9999-12-31', datetime.date(9999, 12, 31)),
           ('"a"', 'a'), ("'a'", 'a'), ('""', ''), ("''", ''), ('"it\'s"', "it's"), ("'say \"hi\"'", 'say "hi"'),
           ('"a;b"', 'a;b'), ('"/* x */"', '/* x */'), ('" "', ' '), ('"2020-01-01"', '2020-01-01'),
           ('(1,)', [1]), ('(1, 2)', [1, 2]), ('("a", \'b\')', ['a', 'b']), ('(1.50, 2020-01-01, TRUE)', [D('1.50'), datetime.date(2020, 1, 1), True]),
           ('(1,2,3,4,5)', [1, 2, 3, 4, 5])]
    return out


def tight_arithmetic():
    """Texts without any blank around arithmetic on number literals, with the AST the grammar gives them: a date literal is
    exactly NNNN-NN-NN; everything else is integer / decimal arithmetic, left-associative."""
    from beanquery.parser import ast
    C = ast.Constant
    d = datetime.date
    D = Decimal
    def sub(*xs):
        out = C(xs[0])
        for x in xs[1:]:
            out = ast.Sub(out, C(x))
        return out
    return [
        ('2020-1-5', sub(2020, 1, 5)), ('2020-10-5', sub(2020, 10, 5)), ('2020-1-15', sub(2020, 1, 15)), ('2020-01-05', C(d(2020, 1, 5))),
        ('1-2-3', sub(1, 2, 3)), ('999-10-10', sub(999, 10, 10)), ('12345-10-10', sub(12345, 10, 10)), ('2020-010-05', sub(2020, 10, 5)),
        ('2020-12-31-1', ast.Sub(C(d(2020, 12, 31)), C(1))), ('2021-01-01-2020-01-01', ast.Sub(C(d(2021, 1, 1)), C(d(2020, 1, 1)))),
        ('1-2020-01-05', ast.Sub(C(1), C(d(2020, 1, 5)))), ('2020-1', sub(2020, 1)), ('2020-01', sub(2020, 1)), ('2020-01-5', sub(2020, 1, 5)),
        ('1.5-2', ast.Sub(C(D('1.5')), C(2))), ('1.-2', ast.Sub(C(D('1')), C(2))), ('2020.-01-05', ast.Sub(ast.Sub(C(D('2020')), C(1)), C(5))),
        ('1+2*3', ast.Add(C(1), ast.Mul(C(2), C(3)))), ('1*2+3', ast.Add(ast.Mul(C(1), C(2)), C(3))), ('1--2', ast.Sub(C(1), ast.Neg(C(2)))),
        ('7-3-2', sub(7, 3, 2)), ('8/4/2', ast.Div(ast.Div(C(8), C(4)), C(2))), ('a-1', ast.Sub(ast.Column('a'), C(1))), ('a1-2-3', ast.Sub(ast.Sub(ast.Column('a1'), C(2)), C(3))),
    ]


def ident_positions(name):
    """Statements using identifier `name` in every syntactic position."""
    c = ir.col
    n = lambda: c(name, None)   # noqa: E731
    A = c('a', None)
    Q = ir.Query
    T = ir.Target
    out = []
    out.append(('first-target', Q(targets=[T(n())])))
    out.append(('second-target', Q(targets=[T(A), T(n())])))
    out.append(('alias', Q(targets=[T(A, name)])))
    out.append(('function-name', Q(targets=[T(ir.func(name, [A], None))])))
    out.append(('function-arg', Q(targets=[T(ir.func('f', [n()], None))])))
    out.append(('attribute', Q(targets=[T(ir.attr(A, name, None))])))
    out.append(('attribute-base', Q(targets=[T(ir.attr(n(), 'b', None))])))
    out.append(('where', Q(targets=[T(A)], where=n())))
    out.append(('where-cmp-right', Q(targets=[T(A)], where=ir.bin_('eq', A, n(), None))))
    out.append(('where-and', Q(targets=[T(A)], where=ir.and_(A, n()))))
    out.append(('where-not', Q(targets=[T(A)], where=ir.un('not', n(), None))))
    out.append(('neg', Q(targets=[T(ir.un('neg', n(), None))])))
    out.append(('in-left', Q(targets=[T(ir.bin_('in', n(), ir.lit([1, 2], ir.T_LIST), None))])))
    out.append(('group-by', Q(targets=[T(A)], group_by=[ir.Key('name', name)])))
    out.append(('having', Q(targets=[T(A)], group_by=[ir.Key('name', 'a')], having=n())))
    out.append(('order-by', Q(targets=[T(A)], order_by=[ir.Key('name', name, True)])))
    out.append(('order-by-2', Q(targets=[T(A)], order_by=[ir.Key('name', 'a'), ir.Key('name', name)])))
    out.append(('pivot-by', Q(targets=[T(A)], pivot_by=[ir.Key('name', name), ir.Key('index', 2)])))
    out.append(('from-expression', Q(targets=[T(A)], from_=ir.From(expr=ir.bin_('eq', n(), ir.lit(1, ir.T_INT), None)))))
    out.append(('from-expression-bare', Q(targets=[T(A)], from_=ir.From(expr=n(), close=True))))
    out.append(('from-table', Q(targets=[T(A)], table=name)))
    out.append(('distinct-first', Q(targets=[T(n())], distinct=True)))
    out.append(('named-placeholder', Q(targets=[T(ir.param(1, name=name))])))
    out.append(('balances-at', ir.Stmt('balances', summary_func=name)))
    out.append(('balances-where', ir.Stmt('balances', where=n())))
    out.append(('journal-at', ir.Stmt('journal', account='x', summary_func=name)))
    out.append(('print-from', ir.Stmt('print', from_=ir.From(expr=n()))))
    return out


# ---------------------------------------------------------------------------
# G8 text mutators

def mutate(rng, text):
    import re
    tokens = re.findall(r"\s+|\w+|'[^']*'|\"[^\"]*\"|.", text)
    if not tokens:
        return text
    r = rng.random()
    i = rng.randrange(len(tokens))
    if r < 0.2:
        del tokens[i]
    elif r < 0.35:
        tokens.insert(i, tokens[i])
    elif r < 0.5:
        j = rng.randrange(len(tokens))
        tokens[i], tokens[j] = tokens[j], tokens[i]
    elif r < 0.65:
        tokens[i] = rng.choice(['SELECT', 'FROM', 'WHERE', 'AND', 'NOT', 'IN', '(', ')', ',', 'BY', 'NULL', '*', '-', 'IS',
                                'OPEN', 'ON', 'CLOSE', '2020-13-45', '%s', '#', ';', '/*', "'", '"'])
    elif r < 0.8:
        return text[:rng.randrange(len(text) + 1)]
    elif r < 0.9:
        tokens.insert(i, rng.choice(['(', ')', '((', '))']))
    else:
        return ''.join(rng.choice('SELCT FROM*(),.\'"#%;-+<>=!~[]0123456789abc \n\tàé') for _ in range(rng.randint(0, 40)))
    return ''.join(tokens)


TWIN_LITERALS = [('Cafe', 'CAFE'), ('cafe', 'Cafe'), ('Coffee shop', 'Coffee  shop'), ('a b', 'a\tb'), ('x', 'x '), (' x', 'x'), ('a\nb', 'a b'),
                 ('Assets:Cash', 'assets:cash'), ('', ' '), ('é', 'É')]
TWIN_TEXTS = [('SELECT 1 ; c\n + 2', 'SELECT 1 ; c + 2'), ('SELECT a /* x */ + b', 'SELECT a /* y */ - b'), ('SELECT 1.0', 'SELECT 1.00'), ('SELECT 1.', 'SELECT 1'),
              ('SELECT 007', 'SELECT 7.'), ('SELECT "a" AS x', "SELECT 'A' AS x"), ('SELECT a FROM #T', 'SELECT a FROM #t'), ('SELECT a.b', 'SELECT a. b'),
              ('SELECT x["k"]', 'SELECT x["K"]'), ('JOURNAL "Cash"', 'JOURNAL "cash"'), ('SELECT %(a)s', 'SELECT %(A)s'), ('SELECT a--1', 'SELECT a- -1')]


def twin_case(ctx, n):
    """parse(t) depends on t only: statements that differ only inside a string literal (letter case, inner blanks), in the
    spelling of a number, or in where an end-of-line comment ends are parsed one after the other, in both orders."""
    rng = ctx.rng('twin', n)
    g = syngen.SynGen(rng, idents=syngen.PLAIN_IDENTS, max_depth=2)
    a, b = rng.choice(TWIN_LITERALS)
    base = g.select(depth=2)
    lit_a, lit_b = ir.lit(a, ir.T_STR), ir.lit(b, ir.T_STR)
    pos = rng.choice(['target', 'where', 'func', 'in'])

    def build(l):
        q = ir.Query(targets=list(base.targets) or [ir.Target(ir.col('a', None))], table=base.table, where=base.where)
        if pos == 'target':
            q.targets = q.targets + [ir.Target(l)]
        elif pos == 'where':
            q.where = ir.bin_('eq', ir.col('payee', None), l, None)
        elif pos == 'func':
            q.targets = q.targets + [ir.Target(ir.func('f', [ir.col('a', None), l], None))]
        else:
            q.where = ir.bin_('in', ir.col('a', None), ir.lit([l.value, 'z'], ir.T_LIST), None)
        return q
    qa, qb = build(lit_a), build(lit_b)
    try:
        pairs = [(ir.stmt_text(qa), ir.stmt_ast(qa)), (ir.stmt_text(qb), ir.stmt_ast(qb))]
    except ValueError:
        return
    if rng.random() < 0.5:
        pairs.reverse()
    for text, exp in pairs:
        res = parse_shipped(text)
        ctx.case(('twin', text), True)
        ctx.count('obs.twin_statements')
        if res[0] == 'exc' and res[1] == 'RecursionError':
            ctx.count('obs.recursion_limit_hits')
            ctx.violation('c06.parser_recursion_limit', f'twin/{n}: parse() raised RecursionError on {text!r}', {'label': f'twin/{n}', 'text': text})
            return
        if res[0] != 'ok' or not ast_same(res[1], exp):
            ctx.violation('c06.parse_depends_on_history', f'twin/{n}: {text!r} parsed to {res[1] if res[0] == "ok" else res} after its twin, expected {exp}',
                          {'label': f'twin/{n}', 'texts': [t for t, _ in pairs]})
            return


def fixed_twins(ctx):
    for a, b in TWIN_TEXTS:
        for first, second in ((a, b), (b, a)):
            r1, r2 = parse_shipped(first), parse_shipped(second)
            d1, d2 = parse_derived(first), parse_derived(second)
            ctx.count('obs.twin_statements', 2)
            for text, r, d in ((first, r1, d1), (second, r2, d2)):
                same_ = (r[0] == d[0]) and (ast_same(r[1], d[1]) if r[0] == 'ok' else r[1:] == d[1:])
                if not same_:
                    ctx.violation('c06.parse_depends_on_history', f'{text!r} parsed (after/before its twin) to {r}, a fresh grammar-derived parser gives {d}',
                                  {'label': 'fixed-twin', 'texts': [first, second]})


VERBATIM = [
    # (statement text, texts of string literals that the tree must carry exactly as written -- also where the literal is kept in a
    #  node of its own kind: a subscript key, the account pattern of JOURNAL)
    ("SELECT meta['invoiceNo'], entry.meta[\"Ref-ID\"] FROM #postings", ['invoiceNo', 'Ref-ID']),
    ('JOURNAL "Assets:Bank:Checking" AT cost', ['Assets:Bank:Checking']),
    ("JOURNAL 'Expenses:Food|Rent' FROM year = 2020", ['Expenses:Food|Rent']),
    ("SELECT x['Key']['Sub Key'] FROM #t", ['Key', 'Sub Key']),
    ('SELECT "MiXed", \'UPPER lower\', f("Arg") FROM #t WHERE s ~ "^Assets:" AND t IN ("A", \'b\')', ['MiXed', 'UPPER lower', 'Arg', '^Assets:', 'A', 'b']),
    ('SELECT a AS alias_ FROM #t ORDER BY alias_', ['alias_']),
]


def verbatim_part(ctx):
    from beanquery import parser as bqparser
    def strings_of(node, out):
        if isinstance(node, str):
            out.append(node)
        elif isinstance(node, (list, tuple)):
            for x in node:
                strings_of(x, out)
        elif hasattr(node, '__dataclass_fields__'):
            for f in node.__dataclass_fields__:
                strings_of(getattr(node, f), out)
        return out
    for text, expected in VERBATIM:
        for label, parse in (('shipped', bqparser.parse),):
            try:
                tree = parse(text)
            except Exception as exc:  # noqa: BLE001
                ctx.violation('c06.verbatim_statement_rejected', f'{text}: {label} parser: {type(exc).__name__}: {exc}', {'label': 'verbatim', 'text': text})
                continue
            found = strings_of(tree, [])
            ctx.count('obs.verbatim_literal_checks', len(expected))
            ctx.case(('verbatim', text, label), True)
            missing = [x for x in expected if x not in found]
            if missing:
                ctx.violation('c06.string_not_kept_verbatim', f'{text}: the tree of the {label} parser carries {sorted(set(found))}; the literal(s) {missing} are not among them',
                              {'label': 'verbatim', 'text': text})


def run(ctx):
    engine.bq()
    ir.AST_PLACEHOLDERS = True
    if ctx.shard == 0:
        verbatim_part(ctx)
    derived_parser()
    ctx.count('obs.generated_parser_source_identical', 1 if _derived.get('identical_source') else 0)
    if not _derived.get('identical_source'):
        ctx.violation('c06.parser_py_not_generated_from_grammar',
                      'beanquery/parser/parser.py differs from the TatSu translation of bql.ebnf', {'label': 'source-compare'})
    rng = ctx.rng('sys')
    # A. systematic matrix
    cases = matrix_cases()
    if ctx.shard == 0:
        ctx.count('matrix.total', len(cases))
    for idx, (label, e) in enumerate(cases):
        if not ctx.mine(idx):
            continue
        st = ir.Query(targets=[ir.Target(e)])
        extra = ('redundant', 'tight') if not ctx.quick else (('redundant',) if idx % 2 == 0 else ('tight',))
        roundtrip(ctx, st, f'matrix/{label}', rng, only=('minimal', *extra))
        if idx % 3 == 0 or not ctx.quick:
            st2 = ir.Query(targets=[ir.Target(ir.col('k', None))], where=e, order_by=[ir.Key('expr', e, True)])
            roundtrip(ctx, st2, f'matrix-where/{label}', rng, only=('minimal',))
        ctx.count('matrix.executed')
        ctx.seen('matrix_cells', label)
    # C. literal spellings
    if ctx.shard == 0:
        from beanquery.parser import ast
        for text, value in literal_spellings():
            res = parse_shipped(f'SELECT {text}')
            ctx.case(('lit', text), False)
            ctx.count('obs.literal_spellings')
            if res[0] != 'ok':
                ctx.violation('c06.literal_rejected', f'literal {text} rejected: {res}', {'text': text})
                continue
            got = res[1].targets[0].expression
            if not (isinstance(got, ast.Constant) and same(got.value, value)):
                ctx.violation('c06.literal_value', f'literal {text} parsed to {got!r}, expected Constant({value!r})', {'text': text})
            differential(ctx, f'SELECT {text}', 'literal')
    # C1b. text with the form of a date that is no calendar date is no literal at all: wherever a literal can stand, the
    #      statement is rejected (never read as a subtraction of integers), with the error located at that text
    if ctx.shard == 2 % ctx.nshards:
        for bad in ('2024-02-30', '2021-02-29', '2024-13-01', '2020-00-10'):
            for tmpl in ('SELECT {}', 'SELECT ({})', 'SELECT (({}))', 'SELECT ( {} )', 'SELECT 1 + ({}) * 2', 'SELECT x IN ({},)', 'SELECT x IN ({}, 2020-01-01)',
                         'SELECT x IN (2020-01-01, {})', 'SELECT year({})', 'SELECT year(({}))', 'SELECT x BETWEEN {} AND 2020-01-01', 'SELECT x < ({})',
                         'SELECT y WHERE x = {}', 'SELECT x FROM OPEN ON {}', 'SELECT x FROM CLOSE ON {}', 'SELECT -({})', 'SELECT x ORDER BY ({})', 'PRINT FROM x > ({})',
                         'JOURNAL "a" FROM x = ({})', 'BALANCES WHERE ({}) = x'):
                text = tmpl.format(bad)
                res = parse_shipped(text)
                ctx.case(('invalid-date', text), True)
                ctx.count('obs.invalid_date_texts')
                at = text.index(bad)
                if res[0] == 'ok':
                    ctx.violation('c06.invalid_date_accepted', f'{text!r} is accepted: {res[1]}', {'text': text})
                elif res[0] == 'exc':
                    ctx.violation('c06.invalid_date_wrong_exception', f'{text!r}: {res}', {'text': text})
                elif not (at <= res[1] <= at + len(bad)):
                    ctx.violation('c06.invalid_date_error_location', f'{text!r}: the error is located at offset {res[1]}, the text that is no date stands at [{at}, {at + len(bad)})', {'text': text})
    # C2. arithmetic on literals without blanks (token boundaries of dates / integers / decimals)
    if ctx.shard == 1 % ctx.nshards:
        for text, exp in tight_arithmetic():
            for prefix, wrap in (('SELECT ', lambda e: e), ('SELECT x WHERE y=', None)):
                full = prefix + text
                res = parse_shipped(full)
                ctx.case(('tight', full), True)
                ctx.count('obs.tight_arithmetic_texts')
                if res[0] != 'ok':
                    ctx.violation('c06.tight_arithmetic', f'{full!r} rejected: {res}', {'text': full})
                    continue
                got = res[1].targets[0].expression if wrap else res[1].where_clause.right
                if not ast_same(got, exp):
                    ctx.violation('c06.tight_arithmetic', f'{full!r}: {text} parsed to {got}, the grammar gives {exp}', {'text': full})
                differential(ctx, full, 'tight-arithmetic')
    # D. identifiers in every position
    idents = syngen.TRICKY_IDENTS + syngen.UNDERSCORE_IDENTS + syngen.PLAIN_IDENTS[:4]
    for idx, name in enumerate(idents):
        if not ctx.mine(idx):
            continue
        for pos, st in ident_positions(name):
            roundtrip(ctx, st, f'ident/{name}/{pos}', rng, nontrivial=False, only=('minimal', 'mixedcase'))
            ctx.count('obs.identifier_positions')
    # F. twins: parsing depends on the text only
    if ctx.shard % 2 == 0:
        fixed_twins(ctx)
    for n in range(ctx.pick(12, 600)):
        if ctx.out_of_time():
            break
        twin_case(ctx, n)
    # B. random statements in 5 renderings, interleaved with E. the differential oracle on mutated texts
    # (interleaved so that a run cut short by the watchdog has still exercised every part)
    mrng = ctx.rng('mutate')
    mutated = 0
    per_case = ctx.pick(4, 4)
    for n in range(ctx.pick(32, 1500)):
        if ctx.out_of_time():
            break
        random_case(ctx, n)
        pool = _pool[-400:]
        for _ in range(per_case):
            if not pool:
                break
            text = mutate(mrng, mrng.choice(pool))
            if mrng.random() < 0.3:
                text = mutate(mrng, text)
            differential(ctx, text, 'mutated')
            ctx.case(('mut', text), False)
            ctx.count('obs.mutated_texts')


def random_case(ctx, n):
    rng = ctx.rng('random', n)
    idents = syngen.PLAIN_IDENTS + syngen.TRICKY_IDENTS + (syngen.UNDERSCORE_IDENTS if rng.random() < 0.3 else [])
    g = syngen.SynGen(rng, idents=idents, max_depth=ctx.pick(3, 5), placeholders=rng.choice([False, False, 'positional', 'named']))
    st = g.statement()
    nclauses = 0
    if isinstance(st, ir.Query):
        nclauses = sum(1 for x in (st.table, st.subquery, st.from_, st.where, st.group_by, st.order_by, st.pivot_by, st.limit) if x)
        deep = any(e.depth() >= 3 for e in st.exprs())
    else:
        deep = False
    roundtrip(ctx, st, f'random/{n}', rng, nontrivial=deep or nclauses >= 3)
    ctx.count('random.executed')
    if len(ctx.samples) < 4 and deep:
        ctx.sample({'text': ir.stmt_text(st), 'ast': repr(ir.stmt_ast(st))[:400]})


def replay(ctx, case):
    engine.bq()
    ir.AST_PLACEHOLDERS = True
    label = (case or {}).get('label', '')
    if label.startswith('random/'):
        random_case(ctx, int(label.split('/')[1]))
    elif label.startswith('twin/'):
        twin_case(ctx, int(label.split('/')[1]))
    elif 'text' in case:
        differential(ctx, case['text'], label)
        print('shipped:', parse_shipped(case['text']))


def finalize(merged):
    c = merged['counters']
    reasons = []
    if c.get('matrix.executed', 0) < c.get('matrix.total', 1):
        reasons.append('parent x child x position matrix incomplete')
    if c.get('obs.differential_both_reject', 0) == 0 or c.get('obs.differential_both_accept', 0) == 0:
        reasons.append('differential oracle did not see both accepted and rejected texts')
    if c.get('obs.twin_statements', 0) == 0:
        reasons.append('no twin statements parsed')
    if c.get('obs.generated_parser_source_identical', 0) == 0:
        reasons.append('generated parser source comparison not performed or different')
    merged['extra']['matrix_cells_covered'] = len(merged['sets'].get('matrix_cells', ()))
    merged['extra']['exhaustive'] = c.get('matrix.executed', 0) >= c.get('matrix.total', 1)
    return reasons

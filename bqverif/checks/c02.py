"""C02 — aggregation: groups partition rows, aggregates fold each group, HAVING filters.

Oracles: R2 query model on harness tables; fold of raw rows fetched with a plain
SELECT on ledger tables; partition additivity; M3 aggregator protocol monitor; M2.
"""
from decimal import InvalidOperation
import re as _re

from .. import engine, gen, ir, model, monitors, ledgers
from ..ir import T_INT, T_DEC, T_STR, T_DATE, T_BOOL
from ..values import same_rows, first_row_diff, show, show_rows, same

ID = 'C02'
LEVEL = 'exploration'
RULE = ('Random aggregate SELECTs over random typed tables (NULL keys, interleaved equal keys, duplicates, Decimal keys '
        'equal in value but different in exponent): 0-3 grouping keys given by expression / output name / 1-based '
        'position, visible or hidden, explicit or implicit; 1-3 aggregate targets (count(*), count, sum, min, max, first, '
        'last over every admissible argument type, arithmetic over aggregates); WHERE and HAVING. Systematic part: every '
        'aggregate x argument type x key type. Ledger part: aggregate queries over postings/entries/typed directive '
        'tables with grouping by a column that is not selected, checked against folds of the raw rows. A case is distinct '
        'by (statement, table digest); non-trivial when it forms >=2 groups, or has a NULL key, or HAVING removes a group.')
ASSUMPTIONS = [
    'reference model R2 written from the property statement',
    'equal values (Python equality, e.g. 1.0 and 1.00) form one group shown by its first representative',
]
EXCLUDED_BOTH = (InvalidOperation, OverflowError, _re.error)      # (an invalid regular expression built from data: undefined)
_LIT = ir.Style()
_LIT.param_style = 'literal'


def is_equal_constant_merge(exc, q, tables):
    """Known mechanism: two column-free, aggregate-free targets / grouping keys that fold to EQUAL constants are
    reconciled with each other by the compiler, which then reports one of them as not covered by GROUP BY."""
    if 'must be covered by GROUP-BY' not in str(exc):
        return False
    env = model.Env(tables)
    consts = []
    exprs = [t.expr for t in q.targets] + [k.value for k in (q.group_by or []) if k.kind == 'expr']
    for e in exprs:
        if not e.has_agg() and not any(n.kind == 'col' for n in e.walk()):
            try:
                consts.append(model.ev(e, {}, env))
            except Exception:  # noqa: BLE001
                pass
    return any(a == b and a is not None for i, a in enumerate(consts) for b in consts[i + 1:]) or consts.count(None) >= 2


def run_case(ctx, q, tables, route, label, mon):
    mt = tables[q.table or 't']
    conn = engine.connection(tables.values())
    try:
        stmt = ir.to_text(q) if route == 'text' else ir.to_ast(q)
    except ValueError:
        ctx.count('skipped.unprintable')
        return
    text = ir.to_text(q, _LIT)
    case = {'label': label, 'route': route, 'statement': text, 'columns': mt.columns, 'rows': show_rows(mt.rows, 60)}
    mon.reset()
    mon.enabled = True
    mon.trace_aggs = True
    eng_exc = mod_exc = None
    try:
        names, dtypes, rows = engine.run(conn, stmt)
    except Exception as exc:  # noqa: BLE001
        eng_exc = exc
    finally:
        mon.enabled = False
        mon.trace_aggs = False
    try:
        mnames, mtypes, mrows = model.run_query(q, tables)
    except model.ModelError:
        ctx.count('skipped.model_domain')
        return
    except EXCLUDED_BOTH as exc:
        mod_exc = exc
    if eng_exc is not None or mod_exc is not None:
        if eng_exc is not None and mod_exc is not None and type(eng_exc) is type(mod_exc):
            ctx.count('excluded.definition_raises')
            return
        if isinstance(eng_exc, EXCLUDED_BOTH) and model.domain_error_possible(q, tables, EXCLUDED_BOTH):
            # arithmetic domain error on a row / key / sub-expression the (lazier) model never evaluated (such an evaluation
            # exists): outside the property, counted
            ctx.count('excluded.engine_arithmetic_domain_error')
            return
        if eng_exc is not None and is_equal_constant_merge(eng_exc, q, tables):
            ctx.violation('%s.group_by_equal_constants_merged' % ID.lower(), f'{type(eng_exc).__name__}: {eng_exc} on {text}', case)
            return
        if eng_exc is not None:
            kind = monitors.classify_exception(eng_exc)
            ctx.violation(f'c02.engine_raised.{kind}', f'{type(eng_exc).__name__}: {eng_exc} on {text}', case)
        else:
            ctx.count('excluded.model_raises_only')
        return
    # how many groups did the selection form (model side)
    q0 = ir.Query(targets=q.targets, table=q.table, subquery=q.subquery, where=q.where, group_by=q.group_by)
    try:
        _, _, all_groups = model.run_query(q0, tables)
    except Exception:  # noqa: BLE001
        all_groups = mrows
    ngroups = len(all_groups)
    nontrivial = ngroups >= 2 or len(all_groups) != len(mrows)
    ctx.case((text, gen.table_digest(mt), route), nontrivial)
    ctx.count(f'route.{route}')
    ctx.count('obs.groups_formed', ngroups)
    if hash(case['statement']) % 5 == 0:
        # re-execution on the same connection gives the same rows (no state kept between executions)
        try:
            _, _, rows_again = engine.run(conn, ir.to_text(q) if route == 'text' else ir.to_ast(q))
            ctx.count('obs.reexecutions')
            if not same_rows(rows_again, rows):
                ctx.violation('c02.reexecution_differs', f'{case["statement"]}: a second execution on the same connection returns different rows', case)
        except Exception as exc:  # noqa: BLE001
            ctx.violation('c02.reexecution_differs', f'{case["statement"]}: a second execution raised {exc!r}', case)
    ctx.count('obs.groups_removed_by_having', ngroups - len(mrows))
    ctx.count('obs.aggregator_events', len(mon.agg_events))
    ctx.counters['obs.max_groups_per_query'] = max(ctx.counters.get('obs.max_groups_per_query', 0), ngroups)
    for t in q.targets:
        for n in t.expr.walk():
            if n.kind == 'agg':
                ctx.seen('aggregate_x_type', f"{n.name}({n.args[0].type if n.args else '*'})")
    if len(ctx.samples) < 4 and ngroups >= 2:
        ctx.sample({'statement': text, 'route': route, 'table_rows': show_rows(mt.rows, 5), 'result_rows': show_rows(rows, 5)})
    if mon.agg_violations:
        ctx.violation('c02.aggregator_protocol', f'{text}: {mon.agg_violations[0]}', case)
    if mon.dtype_violations:
        ctx.violation('c02.node_dtype', f'{text}: node value does not conform to its dtype: {mon.dtype_violations[0]}', case)
    if not same_rows(rows, mrows):
        diff = first_row_diff(rows, mrows)
        ctx.violation('c02.value_mismatch',
                      f'{text}: row {diff[0]} engine={show(diff[1])} model={show(diff[2])} '
                      f'(engine {len(rows)} rows, model {len(mrows)})', case,
                      {'engine': show_rows(rows), 'model': show_rows(mrows)})
        return
    if not engine.types_match(mtypes, dtypes):
        ctx.violation('c02.type_mismatch', f'{text}: announced {[getattr(d, "__name__", d) for d in dtypes]} model {mtypes}', case)
    # partition additivity on the engine's own results
    additivity(ctx, q, tables, conn, case)


def additivity(ctx, q, tables, conn, case):
    """Group-wise count(*), count(x), sum(x) add up to the ungrouped totals of the same WHERE."""
    if q.subquery is not None:
        return
    if not q.group_by and not any(not t.expr.has_agg() for t in q.targets):
        return
    probes = [ir.Target(ir.agg('count', [], T_INT), 'n'),
              ir.Target(ir.agg('count', [ir.col('i', T_INT)], T_INT), 'ci'),
              ir.Target(ir.agg('sum', [ir.col('i', T_INT)], T_INT), 'si'),
              ir.Target(ir.agg('sum', [ir.col('d', T_DEC)], T_DEC), 'sd')]
    keys = [t for t in q.targets if not t.expr.has_agg()]
    gb = q.group_by
    if gb:
        # positional references would shift: rewrite to expressions
        names = [ir.target_name(t) for t in q.targets]
        gb2 = []
        for k in gb:
            if k.kind == 'index':
                gb2.append(ir.Key('expr', q.targets[k.value - 1].expr))
            elif k.kind == 'name' and k.value in names:
                gb2.append(ir.Key('expr', q.targets[max(i for i, n in enumerate(names) if n == k.value)].expr))
            else:
                gb2.append(k)
        gb = gb2
        keys = []
    grouped = ir.Query(targets=[ir.Target(t.expr, f'k{i}') for i, t in enumerate(keys)] + probes, table=q.table, where=q.where, group_by=gb)
    total = ir.Query(targets=probes, table=q.table, where=q.where)
    try:
        _, _, grows = engine.run(conn, ir.to_ast(grouped))
        _, _, trows = engine.run(conn, ir.to_ast(total))
    except Exception:  # noqa: BLE001
        return
    ctx.count('obs.additivity_checks')
    nk = len(keys)
    if not trows:
        if grows:
            ctx.violation('c02.additivity', f'groups without any qualifying row: {ir.to_text(grouped, _LIT)}', case)
        return
    sums = [0, 0, 0, 0]
    for r in grows:
        for j in range(4):
            v = r[nk + j]
            if v is not None:
                sums[j] = sums[j] + v
    for j in range(4):
        if sums[j] != trows[0][j]:
            ctx.violation('c02.additivity', f'{ir.to_text(grouped, _LIT)}: group-wise {sums} vs ungrouped {show(trows[0])}', case)
            return


def systematic_queries():
    """Every aggregate x argument type, grouped by every key type (by expression)."""
    out = []
    arg_cols = {T_INT: 'i', T_DEC: 'd', T_STR: 's', T_DATE: 'dt', T_BOOL: 'b', ir.T_OBJ: 'o'}
    key_cols = {T_INT: 'j', T_DEC: 'e', T_STR: 't', T_DATE: 'du', T_BOOL: 'c'}
    aggs = [ir.agg('count', [], T_INT)]
    for t, c in arg_cols.items():
        aggs.append(ir.agg('count', [ir.col(c, t)], T_INT))
        if t in (T_INT, T_DEC):
            aggs.append(ir.agg('sum', [ir.col(c, t)], t))
        if t != ir.T_OBJ:
            for name in ('min', 'max', 'first', 'last'):
                aggs.append(ir.agg(name, [ir.col(c, t)], t))
    for kt, kc in key_cols.items():
        for a in aggs:
            k = ir.col(kc, kt)
            out.append(ir.Query(targets=[ir.Target(k), ir.Target(a, 'a')], table='t'))
            out.append(ir.Query(targets=[ir.Target(a, 'a')], table='t', group_by=[ir.Key('expr', k)]))
            out.append(ir.Query(targets=[ir.Target(a, 'a'), ir.Target(k, 'kk')], table='t', group_by=[ir.Key('index', 2)],
                                having=ir.bin_('gt', ir.agg('count', [], T_INT), ir.lit(1, T_INT), T_BOOL)))
    for a in aggs:
        out.append(ir.Query(targets=[ir.Target(a, 'a')], table='t'))
        out.append(ir.Query(targets=[ir.Target(a, 'a')], table='t', where=ir.bin_('lt', ir.col('k', T_INT), ir.lit(0, T_INT), T_BOOL)))
    return out


def run(ctx):
    mon = monitors.install()
    rng = ctx.rng('sys')
    sysq = systematic_queries()
    ctx.count('systematic.total_cases', len(sysq) if ctx.shard == 0 else 0)
    for idx, q in enumerate(sysq):
        if not ctx.mine(idx) or ctx.out_of_time():
            continue
        mt = gen.gen_table(rng, 't', max_rows=12)
        run_case(ctx, q, {'t': mt}, 'ast' if idx % 5 else 'text', f'sys/{idx}', mon)
        ctx.count('systematic.executed')
    n_random = ctx.pick(700, 12000)
    for n in range(n_random):
        if ctx.out_of_time():
            break
        random_case(ctx, n, mon)
    ledger_part(ctx, mon)
    structured_part(ctx, mon)


def nested_aggregate(rng, qg):
    """An aggregate query whose table is itself an aggregate sub-query, or that filters with IN (aggregate sub-query); inner and
    outer use the same aggregate functions at different target positions."""
    key_t, key_c = rng.choice([(T_INT, 'i'), (T_STR, 's'), (T_BOOL, 'b'), (T_DATE, 'dt')])
    inner_aggs = [ir.Target(ir.agg('count', [], T_INT), 'n'), ir.Target(ir.agg('sum', [ir.col('j', T_INT)], T_INT), 'sj'),
                  ir.Target(ir.agg('max', [ir.col('d', T_DEC)], T_DEC), 'md'), ir.Target(ir.agg('min', [ir.col('j', T_INT)], T_INT), 'mj')]
    rng.shuffle(inner_aggs)
    inner_aggs = inner_aggs[:rng.randint(1, 4)]
    if rng.random() < 0.55:
        inner = ir.Query(targets=[ir.Target(ir.col(key_c, key_t), 'g')] + inner_aggs, table='t', group_by=[ir.Key('index', 1)],
                         having=ir.bin_('ge', ir.agg('count', [], T_INT), ir.lit(rng.choice([0, 1, 2]), T_INT), T_BOOL) if rng.random() < 0.5 else None)
        num = [t for t in inner_aggs if t.expr.type == T_INT]
        outer_t = [ir.Target(ir.agg('count', [], T_INT), 'c')]
        if num:
            a = rng.choice(num)
            outer_t.append(ir.Target(ir.agg('sum', [ir.col(a.alias, T_INT)], T_INT), 's'))
            outer_t.append(ir.Target(ir.agg(rng.choice(['min', 'max']), [ir.col(a.alias, T_INT)], T_INT), 'm'))
        rng.shuffle(outer_t)
        q = ir.Query(targets=outer_t, subquery=inner)
        if rng.random() < 0.5:
            q.targets = [ir.Target(ir.col('g', key_t), 'gg')] + q.targets
            q.group_by = [ir.Key('name', 'gg')]
        return q
    # IN (aggregate sub-query) in WHERE of an aggregate query over the same table
    sub = ir.Query(targets=[ir.Target(ir.col(key_c, key_t))], table='t', group_by=[ir.Key('expr', ir.col(key_c, key_t))],
                   having=rng.choice([ir.bin_('gt', ir.agg('count', [], T_INT), ir.lit(rng.choice([0, 1, 2]), T_INT), T_BOOL),
                                      ir.bin_('gt', ir.agg('sum', [ir.col('j', T_INT)], T_INT), ir.lit(rng.choice([0, 3]), T_INT), T_BOOL)]))
    outer_t = [ir.Target(ir.col(key_c, key_t), 'g'), ir.Target(ir.agg('min', [ir.col('j', T_INT)], T_INT), 'mn'),
               ir.Target(ir.agg('sum', [ir.col('j', T_INT)], T_INT), 'sj'), ir.Target(ir.agg('count', [], T_INT), 'n')]
    tail = outer_t[1:]
    rng.shuffle(tail)
    q = ir.Query(targets=[outer_t[0]] + tail[:rng.randint(1, 3)], table='t', where=ir.bin_('in', ir.col(key_c, key_t), ir.subq(sub), T_BOOL),
                 group_by=[ir.Key('name', 'g')])
    if rng.random() < 0.4:
        q.having = ir.bin_('gt', ir.agg('sum', [ir.col('j', T_INT)], T_INT), ir.lit(0, T_INT), T_BOOL)
    return q


def random_case(ctx, n, mon):
    rng = ctx.rng('random', n)
    mt = gen.gen_table(rng, 't', max_rows=ctx.pick(12, 40), ties=rng.random() < 0.3)
    qg = gen.QueryGen(rng, max_depth=ctx.pick(3, 4), subselects=0.08)
    if rng.random() < 0.2:
        q = nested_aggregate(rng, qg)
        q_table = 't'
        ctx.count('random.nested_aggregate')
        route = 'text' if rng.random() < 0.12 else 'ast'
        run_case(ctx, q, {'t': mt}, route, f'random/{n}', mon)
        ctx.count('random.executed')
        return
    q = qg.aggregate()
    route = 'text' if rng.random() < 0.12 else 'ast'
    run_case(ctx, q, {'t': mt}, route, f'random/{n}', mon)
    ctx.count('random.executed')


def ledger_part(ctx, mon):
    """Aggregates over Beancount-backed tables, checked against folds of raw rows."""
    rng = ctx.rng('ledger')
    n = ctx.pick(12, 150)
    for i in range(n):
        if ctx.out_of_time():
            break
        led = ledgers.gen_ledger(rng, ntxn=rng.randint(3, ctx.pick(12, 40)))
        conn = engine.connection(ledger=led.loaded)
        for table, cols in ledgers.GROUPABLE.items():
            # group by one column while selecting a different column of the same type
            by_type = {}
            for c, t in cols:
                by_type.setdefault(t, []).append(c)
            for t, cs in by_type.items():
                if len(cs) < 2:
                    continue
                a, b = rng.sample(cs, 2)
                ledger_case(ctx, conn, table, a, b, mon)


def ledger_case(ctx, conn, table, key, other, mon):
    """SELECT first(other), count(*) FROM #table GROUP BY key  — vs fold of raw rows."""
    raw_q = f'SELECT {key} AS kk, {other} AS oo FROM #{table}'
    agg_q = f'SELECT first({other}) AS f, last({other}) AS l, count(*) AS n, count({other}) AS c FROM #{table} GROUP BY {key}'
    sel_q = f'SELECT {other}, count(*) AS n FROM #{table} GROUP BY {key}, {other}'
    try:
        _, _, raw = engine.run(conn, raw_q)
    except Exception as exc:  # noqa: BLE001
        ctx.violation('c02.ledger_raw_failed', f'{raw_q}: {exc!r}', {'statement': raw_q})
        return
    groups = {}
    for k, o in raw:
        groups.setdefault(k, []).append(o)
    exp = []
    for k, vals in groups.items():
        f = next((v for v in vals if v is not None), None)
        exp.append((f, vals[-1], len(vals), sum(1 for v in vals if v is not None)))
    case = {'statement': agg_q, 'raw': show_rows(raw, 30)}
    mon.reset()
    mon.enabled = True
    mon.trace_aggs = True
    try:
        _, _, rows = engine.run(conn, agg_q)
    except Exception as exc:  # noqa: BLE001
        ctx.violation(f'c02.engine_raised.{monitors.classify_exception(exc)}', f'{agg_q}: {exc!r}', case)
        return
    finally:
        mon.enabled = False
        mon.trace_aggs = False
    ctx.case((agg_q, tuple(map(repr, raw))), len(groups) >= 2)
    ctx.count('obs.ledger_cases')
    ctx.count('obs.groups_formed', len(groups))
    if mon.agg_violations:
        ctx.violation('c02.aggregator_protocol', f'{agg_q}: {mon.agg_violations[0]}', case)
    if [tuple(r) for r in rows] != exp:
        mech = 'c02.ledger_group_mismatch'
        ctx.violation(mech, f'{agg_q}: engine {show_rows(rows, 4)} expected {show_rows(exp, 4)}', case)
        return
    # grouping by (key, other): counts partition the table
    try:
        _, _, rows2 = engine.run(conn, sel_q)
    except Exception as exc:  # noqa: BLE001
        ctx.violation(f'c02.engine_raised.{monitors.classify_exception(exc)}', f'{sel_q}: {exc!r}', {'statement': sel_q})
        return
    pairs = {}
    order = []
    for k, o in raw:
        if (k, o) not in pairs:
            pairs[(k, o)] = 0
            order.append((k, o))
        pairs[(k, o)] += 1
    exp2 = [(o, pairs[(k, o)]) for k, o in order]
    if [tuple(r) for r in rows2] != exp2:
        ctx.violation('c02.ledger_group_mismatch', f'{sel_q}: engine {show_rows(rows2, 4)} expected {show_rows(exp2, 4)}',
                      {'statement': sel_q, 'raw': show_rows(raw, 30)})


def structured_part(ctx, mon):
    """Aggregates over amount / position / inventory operands with several consumers of the same values in one statement
    (the same sum twice, first/last/count beside sum), over postings, over a sub-query column of inventories and over a
    persistent table of inventory objects. Oracle: folds of the raw rows fetched (and deep-copied) beforehand; the source
    rows read again afterwards are unchanged."""
    import copy
    from beancount.core import inventory, amount as amt, position as pos
    from .c12 import inv_sum
    from ..model import ModelTable
    rng = ctx.rng('structured')
    for i in range(ctx.pick(6, 60)):
        if ctx.out_of_time():
            break
        led = ledgers.gen_ledger(rng, ntxn=rng.randint(4, ctx.pick(12, 30)))
        conn = engine.connection(ledger=led.loaded)
        # a persistent table whose cells ARE inventory / amount objects (handed out by reference on every scan)
        try:
            _, _, base = engine.run(conn, 'SELECT root(account, 1) AS g, account AS a, sum(position) AS inv, first(weight) AS w FROM #postings GROUP BY 1, 2')
        except Exception as exc:  # noqa: BLE001
            ctx.violation(f'c02.engine_raised.{monitors.classify_exception(exc)}', f'structured base query: {exc!r}', {'ledger': led.text})
            continue
        mt = ModelTable('invs', [('g', str), ('a', str), ('inv', inventory.Inventory), ('w', amt.Amount)], [tuple(r) for r in base])
        conn.tables['invs'] = engine.harness_table(mt)
        sources = [
            ('#invs', 'g', 'inv', 'w'),
            ('(SELECT root(account, 1) AS g, account AS a, sum(position) AS inv, first(weight) AS w FROM #postings GROUP BY 1, 2)', 'g', 'inv', 'w'),
            ('(SELECT account AS g, year AS y, sum(position) AS inv, last(weight) AS w FROM #postings GROUP BY 1, 2)', 'g', 'inv', 'w'),
            ('#postings', 'account', 'position', 'weight'),
            ('#postings', 'currency', 'units(position)', 'cost(position)'),
        ]
        for src, key, x, y in sources:
            raw_q = f'SELECT {key} AS kk, {x} AS xx, {y} AS yy FROM {src}'
            try:
                _, _, raw = engine.run(conn, raw_q)
            except Exception as exc:  # noqa: BLE001
                ctx.violation(f'c02.engine_raised.{monitors.classify_exception(exc)}', f'{raw_q}: {exc!r}', {'statement': raw_q, 'ledger': led.text})
                continue
            raw = copy.deepcopy([tuple(r) for r in raw])
            groups = {}
            for k, a, b in raw:
                groups.setdefault(k, []).append((a, b))
            shapes = [
                (f'SELECT {key} AS kk, sum({x}) AS s1, sum({x}) AS s2, count({x}) AS n FROM {src} GROUP BY {key}',
                 lambda vals: (inv_sum(a for a, _ in vals), inv_sum(a for a, _ in vals), sum(1 for a, _ in vals if a is not None))),
                (f'SELECT {key} AS kk, first({x}) AS f, sum({x}) AS s, last({x}) AS l FROM {src} GROUP BY {key}',
                 lambda vals: (next((a for a, _ in vals if a is not None), None), inv_sum(a for a, _ in vals), vals[-1][0])),
                (f'SELECT {key} AS kk, sum({x}) AS s, sum({y}) AS t, first({y}) AS f, count(*) AS n FROM {src} GROUP BY {key}',
                 lambda vals: (inv_sum(a for a, _ in vals), inv_sum(b for _, b in vals), next((b for _, b in vals if b is not None), None), len(vals))),
                (f'SELECT {key} AS kk, last({x}) AS l, sum({x}) AS s FROM {src} GROUP BY {key} HAVING NOT empty(sum({x})) OR count(*) > 0',
                 lambda vals: (vals[-1][0], inv_sum(a for a, _ in vals))),
            ]
            for text, fold in rng.sample(shapes, 3):
                case = {'statement': text, 'ledger': led.text}
                try:
                    _, _, rows = engine.run(conn, text)
                except Exception as exc:  # noqa: BLE001
                    ctx.violation(f'c02.engine_raised.{monitors.classify_exception(exc)}', f'{text}: {exc!r}', case)
                    continue
                exp = [(k, *fold(vals)) for k, vals in groups.items()]
                ctx.case((text, led.text), len(groups) >= 2)
                ctx.count('obs.structured_aggregate_cases')
                ctx.count('obs.structured_groups', len(groups))
                if [tuple(r) for r in rows] != exp:
                    bad = next((n for n, (r, e) in enumerate(zip(list(rows) + [None], exp + [None])) if r is None or e is None or tuple(r) != e), 0)
                    ctx.violation('c02.structured_aggregate_mismatch',
                                  f'{text}: group {bad}: engine {show(tuple(rows[bad])) if bad < len(rows) else None} ; fold of the raw rows {show(exp[bad]) if bad < len(exp) else None}', case)
                    break
            # the source hands out the same values afterwards
            try:
                _, _, again = engine.run(conn, raw_q)
            except Exception as exc:  # noqa: BLE001
                ctx.violation(f'c02.engine_raised.{monitors.classify_exception(exc)}', f'{raw_q}: {exc!r}', {'statement': raw_q})
                continue
            if [tuple(r) for r in again] != raw:
                ctx.violation('c02.aggregation_mutates_source', f'{raw_q}: after the aggregate statements the source rows differ from the rows read before them',
                              {'statement': raw_q, 'ledger': led.text})


def replay(ctx, case):
    mon = monitors.install()
    label = (case or {}).get('label', '')
    if label.startswith('random/'):
        random_case(ctx, int(label.split('/')[1]), mon)
    else:
        print('replay: systematic/ledger case; re-run the check with the same VERIF_SEED. case:', case)


def finalize(merged):
    reasons = []
    c = merged['counters']
    if c.get('systematic.executed', 0) < c.get('systematic.total_cases', 1):
        reasons.append('systematic part incomplete')
    if c.get('obs.aggregator_events', 0) == 0:
        reasons.append('aggregator protocol monitor never fired')
    if c.get('obs.ledger_cases', 0) == 0:
        reasons.append('no ledger-table aggregate case executed')
    if c.get('obs.structured_aggregate_cases', 0) == 0:
        reasons.append('no aggregate over amounts / positions / inventories executed')
    if c.get('obs.additivity_checks', 0) == 0:
        reasons.append('no additivity check executed')
    return reasons

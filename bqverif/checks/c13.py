"""C13 — OPEN / CLOSE / CLEAR present the ledger as a period report preserving balances.

Monitor at the cursor boundary on `SELECT entry, id, account, position, date, flag,
weight FROM <clauses>`; oracle computed from the loaded directives: which original
transactions may appear, per-account inventories of the full ledger, activity of the
period, transaction residuals; relations between recorded executions (FROM filter vs
WHERE filter, SELECT vs BALANCES vs PRINT routes); source digest before/after.
"""
import datetime
import io

from .. import engine, ledgers, monitors
from .c09 import digest_entries
from ..values import show, show_rows

ID = 'C13'
LEVEL = 'exploration'
RULE = ('Generated multi-currency ledgers (lots at cost, sales, @/@@ conversions, pad) x every subset of {OPEN ON d, CLOSE [ON e], '
        'CLEAR} x dates drawn from {before the ledger, equal to an entry date, between entries, after the ledger, d = e} x optional '
        'FROM filter expression; checked: original transactions outside [d, e) absent and inside present unchanged in order, '
        'Assets/Liabilities inventories equal the full-ledger inventories as of e, Income/Expenses carry the activity of [d, e) or '
        'nothing with CLEAR, every returned transaction balances, filter-in-FROM equals filter-in-WHERE, BALANCES and PRINT see the '
        'same entries, CLOSE before OPEN is rejected, the connection is unchanged afterwards. Distinct by (ledger digest, clauses); '
        'non-trivial when at least one original transaction is cut and one kept.')
ASSUMPTIONS = ['beancount.ops.summarize and interpolate.compute_residual/infer_tolerances are trusted Beancount definitions',
               'synthetic summarisation entries are recognised as those whose id is not an id of a loaded directive']


def inv_of(positions):
    from beancount.core import inventory
    inv = inventory.Inventory()
    for p in positions:
        inv.add_position(p)
    return inv


def pick_dates(rng, txn_dates, entry_dates=()):
    first, last = min(txn_dates), max(txn_dates)
    if entry_dates and rng.random() < 0.08:
        # a period that ends on or before the very first directive: it selects nothing at all
        start = min(entry_dates)
        early = [start, start - datetime.timedelta(days=1), datetime.date(1990, 1, 1)]
        d = rng.choice(early)
        return d, rng.choice([x for x in early if x >= d])
    pool = [first - datetime.timedelta(days=40), first, last, last + datetime.timedelta(days=40), last, last + datetime.timedelta(days=1),
            last - datetime.timedelta(days=1), first + datetime.timedelta(days=1)]
    pool += [rng.choice(txn_dates) for _ in range(3)]
    pool += [rng.choice(txn_dates) + datetime.timedelta(days=rng.choice([1, 3, 10])) for _ in range(3)]
    d = rng.choice(pool)
    r = rng.random()
    if r < 0.15:
        e = d
    else:
        later = [x for x in pool if x >= d]
        e = rng.choice(later) if later else d
    return d, e


def clause_text(open_, close, clear, expr=None):
    parts = []
    if expr:
        parts.append(expr)
    if open_ is not None:
        parts.append(f'OPEN ON {open_}')
    if close is True:
        parts.append('CLOSE')
    elif close is not None:
        parts.append(f'CLOSE ON {close}')
    if clear:
        parts.append('CLEAR')
    return ' '.join(parts)


FILTERS = [
    ('year = 2020', lambda e: e.date.year == 2020),
    ('flag = "*"', lambda e: e.flag == '*'),
    ('month <= 6', lambda e: e.date.month <= 6),
    ('narration ~ "rent|salary"', lambda e: any(w in (e.narration or '').lower() for w in ('rent', 'salary'))),
]


def run_case(ctx, n):
    """One connection, several related clause sets one after the other (the same OPEN/CLOSE dates with and without
    CLEAR, then other subsets): the verdict on each statement must not depend on the statements executed before."""
    from beancount.core import data
    rng = ctx.rng('case', n)
    led = ledgers.gen_ledger(rng, ntxn=rng.randint(4, ctx.pick(16, 50)), renamed_roots=rng.random() < 0.2)
    entries, errors, options = led.loaded
    conn = engine.connection(ledger=led.loaded)
    txns = [e for e in entries if isinstance(e, data.Transaction)]
    if not txns:
        return
    d, e = pick_dates(rng, [t.date for t in txns], [x.date for x in entries])
    use_open = rng.random() < 0.7
    close_kind = rng.choice(['none', 'date', 'date', 'bare'])
    clear = rng.random() < 0.5
    if not use_open and close_kind == 'none' and not clear:
        clear = True
    variants = [(use_open, close_kind, clear)]
    if use_open or close_kind != 'none':
        variants.append((use_open, close_kind, not clear))           # same period, other CLEAR flag
    variants.append((rng.random() < 0.5, rng.choice(['none', 'date', 'bare']), rng.random() < 0.5))
    if rng.random() < 0.5:
        variants.append((use_open, close_kind, clear))                # and the first one again
    for vi, (uo, ck, cl) in enumerate(variants):
        if not uo and ck == 'none' and not cl:
            cl = True
        if check_clauses(ctx, rng, n, vi, led, conn, entries, options, txns, d, e, uo, ck, cl) is False:
            return
        ctx.count('obs.statements_on_shared_connection' if vi else 'obs.first_statements')


PRINT_FILTERS = [
    ('year >= 2020', lambda x: x.date.year >= 2020),
    ('year = 2020 AND month <= 6', lambda x: x.date.year == 2020 and x.date.month <= 6),
    ('type = "transaction"', lambda x: type(x).__name__ == 'Transaction'),
    ('type != "transaction"', lambda x: type(x).__name__ != 'Transaction'),
    ('NOT (year = 2019)', lambda x: x.date.year != 2019),
    ('flag = "*"', lambda x: type(x).__name__ == 'Transaction' and x.flag == '*'),
    ('type = "transaction" AND NOT has_account("Broker")', lambda x: type(x).__name__ == 'Transaction' and not any('broker' in p.account.lower() for p in x.postings)),
]


def check_clauses(ctx, rng, n, vi, led, conn, entries, options, txns, d, e, use_open, close_kind, clear):
    from beancount.core import data, interpolate
    from beancount.core.compare import hash_entry
    from beancount.parser import options as bopts
    orig_ids = {hash_entry(x) for x in entries}
    open_ = d if use_open else None
    close = {'none': None, 'date': e, 'bare': True}[close_kind]
    clauses = clause_text(open_, close, clear)
    before = digest_entries(entries)
    plain_before = conn.execute('SELECT id, account, position FROM #postings').fetchall()
    text = f'SELECT entry, id, account, position, date, flag, weight FROM {clauses}'
    case = {'replay': ['case', n], 'statement': text, 'variant': vi, 'ledger': led.text}
    try:
        rows = conn.execute(text).fetchall()
    except Exception as exc:  # noqa: BLE001
        ctx.violation(f'c13.clauses_rejected.{monitors.classify_exception(exc)}', f'{text}: {type(exc).__name__}: {exc}', case)
        return False
    lo = open_ or datetime.date.min
    hi = close if isinstance(close, datetime.date) else datetime.date.max
    # (a transaction the loader left without postings -- a booking error such as an ambiguous lot match -- has no row in the postings table)
    inside = [t for t in txns if lo <= t.date < hi and t.postings]
    cut = len([t for t in txns if t.postings]) - len(inside)
    ctx.case((ledgers_digest(led), clauses), cut > 0 and len(inside) > 0)
    ctx.count('obs.cases')
    ctx.seen('clause_subsets', f"{'O' if use_open else '-'}{'C' if close_kind == 'date' else 'c' if close_kind == 'bare' else '-'}{'X' if clear else '-'}")
    ctx.count('obs.original_transactions_cut', cut)
    ctx.count('obs.original_transactions_kept', len(inside))
    if len(ctx.samples) < 3 and cut and inside:
        ctx.sample({'statement': text, 'transactions': len(txns), 'kept': len(inside), 'rows': len(rows)})
    # 0. the reference period view (bqverif/period.py: summarize.open_opt, close_opt, clear_opt in this order): the statement
    #    presents exactly its postings -- original and synthesized -- in order
    from .. import period
    view = period.reference_view(entries, options, open_, close, clear)
    ref_rows = period.posting_rows(view)
    ctx.count('obs.reference_view_comparisons')
    ctx.count('obs.reference_view_synthesized_postings', max(0, len(ref_rows) - sum(len(t.postings) for t in inside)))
    if [(r[4], r[5], r[2], r[3]) for r in rows] != ref_rows:
        got = [(r[4], r[5], r[2], r[3]) for r in rows]
        k = next(i for i, (a, b) in enumerate(zip(got + [None], ref_rows + [None])) if a != b)
        ctx.violation('c13.rows_vs_period_view', f'{text}: row {k} is {show(got[k]) if k < len(got) else None}; the period view (OPEN, then CLOSE, then CLEAR applied to the ledger) '
                      f'has {show(ref_rows[k]) if k < len(ref_rows) else None} ({len(got)} rows vs {len(ref_rows)})', case)
        return False
    # 1. original transactions: exactly those inside [d, e), unchanged and in order
    seen_entries = []
    for r in rows:
        if not seen_entries or seen_entries[-1] is not r[0]:
            seen_entries.append(r[0])
    returned_orig = [t for t in seen_entries if hash_entry(t) in orig_ids]
    if [hash_entry(t) for t in returned_orig] != [hash_entry(t) for t in inside]:
        out = [t.date for t in returned_orig if not (lo <= t.date < hi)]
        ctx.violation('c13.original_transactions', f'{text}: original transactions returned {len(returned_orig)}, expected the {len(inside)} dated in '
                      f'[{lo}, {hi}); outside dates returned: {out[:3]}', case)
        return False
    byid = {}
    for r in rows:
        byid.setdefault(r[1], []).append(r)
    for t in inside:
        got = byid.get(hash_entry(t), [])
        if [(g[2], g[3]) for g in got] != [(p.account, _position(p)) for p in t.postings] or any(g[0] is not t and g[0] != t for g in got):
            ctx.violation('c13.transaction_altered', f'{text}: transaction of {t.date} "{t.narration}" is altered or incomplete', case)
            return False
    # 2. balance sheet accounts keep their balances; income statement accounts carry the period's activity
    types = bopts.get_account_types(options)
    got_inv = {}
    for r in rows:
        got_inv.setdefault(r[2], []).append(r[3])
    full = {}
    period = {}
    for t in txns:
        for p in t.postings:
            if t.date < hi:
                full.setdefault(p.account, []).append(_position(p))
            if lo <= t.date < hi:
                period.setdefault(p.account, []).append(_position(p))
    accounts = set(full) | set(got_inv)
    for a in sorted(accounts):
        root = a.split(':')[0]
        g = inv_of(got_inv.get(a, []))
        if root in (types.assets, types.liabilities):
            ctx.count('obs.balance_sheet_accounts_compared')
            if g != inv_of(full.get(a, [])):
                ctx.violation('c13.balance_sheet_balance', f'{text}: {a} totals {g} over the returned rows; its balance in the full ledger as of {hi} is {inv_of(full.get(a, []))}', case)
                return False
        elif root in (types.income, types.expenses):
            ctx.count('obs.income_statement_accounts_compared')
            exp = inv_of([]) if clear else inv_of(period.get(a, []))
            if g != exp:
                ctx.violation('c13.income_statement_activity', f'{text}: {a} totals {g}; expected {exp} (activity in [{lo}, {hi}){", cleared" if clear else ""})', case)
                return False
    # 3. every returned transaction still balances
    for t in seen_entries:
        res = interpolate.compute_residual(t.postings)
        tol = interpolate.infer_tolerances(t.postings, options)
        ctx.count('obs.transactions_balance_checked')
        if not res.is_small(tol):
            ctx.violation('c13.transaction_does_not_balance', f'{text}: returned transaction {t.date} "{t.narration}" has residual {res}', case)
            return False
    # 3b. with CLOSE the currency conversions are carried by Equity: the cost basis of everything returned sums to nothing
    from beancount.core import convert
    from decimal import Decimal
    total_weight = inv_of([])
    for r in rows:
        total_weight.add_amount(r[6])
    if not total_weight.is_small(Decimal('1E-9')):
        ctx.violation('c13.result_does_not_balance', f'{text}: the weights of the returned postings total {total_weight}', case)
        return False
    if close is not None:
        total_cost = inv_of([r[3] for r in rows]).reduce(convert.get_cost)
        ctx.count('obs.close_conversion_checks')
        if not total_cost.is_small(Decimal('1E-9')):
            ctx.violation('c13.close_leaves_conversion_imbalance', f'{text}: after CLOSE the cost basis of the returned postings totals {total_cost}, not carried by Equity', case)
            return False
    # 4. the clauses apply independently of the filter expression
    ftext, fpy = rng.choice(FILTERS)
    with_from = f'SELECT id, account, position, date FROM {clause_text(open_, close, clear, ftext)}'
    with_where = f'SELECT id, account, position, date FROM {clauses} WHERE {ftext}'
    try:
        a = conn.execute(with_from).fetchall()
        b = conn.execute(with_where).fetchall()
    except Exception as exc:  # noqa: BLE001
        ctx.violation(f'c13.filter_rejected', f'{with_from}: {exc!r}', case)
        return False
    exp_rows = [(r[1], r[2], r[3], r[4]) for r in rows if fpy(r[0])]
    ctx.count('obs.filter_relations')
    if a != b or a != exp_rows:
        ctx.violation('c13.filter_not_independent', f'{with_from}: {len(a)} rows; filter in WHERE: {len(b)} rows; harness filter over the unfiltered result: {len(exp_rows)} rows', case)
        return False
    # 4b. a sub-select interprets its own FROM clause on its own: the outer clauses do not leak into it
    inner_open = rng.choice([None, d, d + datetime.timedelta(days=30)])
    inner_close = rng.choice([None, True, e])
    inner_clear = rng.random() < 0.3
    if inner_open is None and inner_close is None and not inner_clear:
        inner_close = True
    if isinstance(inner_close, datetime.date) and inner_open and inner_close < inner_open:
        inner_close = None
        inner_clear = True
    inner_clauses = clause_text(inner_open, inner_close, inner_clear, rng.choice([None, 'year >= 2019']))
    nested = f'SELECT id, account, position FROM {clauses} WHERE account IN (SELECT account FROM {inner_clauses})'
    try:
        inner_accounts = {r[0] for r in conn.execute(f'SELECT account FROM {inner_clauses}').fetchall()}
        got = conn.execute(nested).fetchall()
    except Exception as exc:  # noqa: BLE001
        ctx.violation('c13.subselect_rejected', f'{nested}: {exc!r}', case)
        return False
    exp_nested = [(r[1], r[2], r[3]) for r in rows if r[2] in inner_accounts] if inner_accounts else []
    ctx.count('obs.subselect_clause_relations')
    if got != exp_nested:
        ctx.violation('c13.subselect_clauses_not_independent', f'{nested}: {len(got)} rows; filtering the outer result by the accounts of the stand-alone '
                      f'sub-select gives {len(exp_nested)} rows', case)
        return False
    # 5. BALANCES and PRINT see the same entries
    try:
        bal = conn.execute(f'BALANCES FROM {clauses}').fetchall()
    except Exception as exc:  # noqa: BLE001
        ctx.violation('c13.balances_rejected', f'BALANCES FROM {clauses}: {exc!r}', case)
        return False
    expb = {a: inv_of(ps) for a, ps in got_inv.items()}
    ctx.count('obs.balances_route')
    if {a: i for a, i in bal} != expb:
        ctx.violation('c13.balances_route_differs', f'BALANCES FROM {clauses} differs from the per-account sums of the SELECT route', case)
        return False
    try:
        jrows = conn.execute(f'JOURNAL FROM {clauses}').fetchall()
    except Exception as exc:  # noqa: BLE001
        ctx.violation('c13.journal_rejected', f'JOURNAL FROM {clauses}: {exc!r}', case)
        return False
    ctx.count('obs.journal_route')
    if [(j[0], j[1], j[4], j[5]) for j in jrows] != [(r[4], r[5], r[2], r[3]) for r in rows]:
        ctx.violation('c13.journal_route_differs', f'JOURNAL FROM {clauses}: its postings (date, flag, account, position) differ from the SELECT route ({len(jrows)} vs {len(rows)} rows)', case)
        return False
    # the register's running balance is the prefix sum of its positions -- also over the postings the summarization itself
    # inserts (opening balances, transfers to equity: no metadata, and equal ones in a row when two accounts hold the same)
    from beancount.core import inventory as _inventory
    for jtext in (None, 'Equity|Capital'):
        if jtext is not None:
            try:
                jrows = conn.execute(f'JOURNAL "{jtext}" FROM {clauses}').fetchall()
            except Exception as exc:  # noqa: BLE001
                ctx.violation('c13.journal_rejected', f'JOURNAL "{jtext}" FROM {clauses}: {exc!r}', case)
                return False
        run_ = _inventory.Inventory()
        for jn, j in enumerate(jrows):
            run_.add_position(j[5])
            if j[6] != run_:
                ctx.violation('c13.journal_running_balance', f'JOURNAL {jtext or ""} FROM {clauses}: row {jn} ({j[0]} {j[4]} {j[5]}) shows the balance {j[6]}; '
                              f'the positions listed so far total {run_}', case)
                return False
        ctx.count('obs.journal_running_balances')
    from beanquery import compiler, query_execute
    out = io.StringIO()
    try:
        query_execute.execute_print(compiler.compile(conn, conn.parse(f'PRINT FROM {clauses}')), out)
    except Exception as exc:  # noqa: BLE001
        ctx.violation('c13.print_rejected', f'PRINT FROM {clauses}: {exc!r}', case)
        return False
    from beancount.parser import parser as bparser
    pentries, perrs, _ = bparser.parse_string(out.getvalue())
    ptx = [(t.date, t.narration, tuple(p.account for p in t.postings)) for t in pentries if isinstance(t, data.Transaction) and t.postings]
    stx = [(t.date, t.narration, tuple(p.account for p in t.postings)) for t in seen_entries]
    ctx.count('obs.print_route')
    # PRINT with a filter expression besides the period clauses: the directives of the period view that satisfy it
    fexpr, pred = rng.choice(PRINT_FILTERS)
    ptext = f'PRINT FROM {fexpr} {clauses}'
    out2 = io.StringIO()
    try:
        query_execute.execute_print(compiler.compile(conn, conn.parse(ptext)), out2)
    except Exception as exc:  # noqa: BLE001
        ctx.violation('c13.print_rejected', f'{ptext}: {exc!r}', case)
        return False
    from .c14 import reparse
    p2, perr2, _ = reparse(out2.getvalue(), led.text)
    p2 = sorted(p2, key=lambda x: x.meta['lineno'])
    sig = lambda x: (type(x).__name__, x.date, getattr(x, 'narration', getattr(x, 'account', None)),                       # noqa: E731
                     tuple((p.account, p.units) for p in x.postings) if isinstance(x, data.Transaction) else None)
    exp2 = [sig(x) for x in view if pred(x)]
    ctx.count('obs.print_with_filter_and_period')
    if perr2 or [sig(x) for x in p2] != exp2:
        got2 = [sig(x) for x in p2]
        k = next((i for i, (a, b) in enumerate(zip(got2 + [None], exp2 + [None])) if a != b), 0)
        ctx.violation('c13.print_filter_and_period', f'{ptext}: printed directive {k} is {got2[k] if k < len(got2) else None}; the period view filtered by the expression has '
                      f'{exp2[k] if k < len(exp2) else None} ({len(got2)} printed, {len(exp2)} expected, parse errors {len(perr2)})', dict(case, statement=ptext))
        return False
    if ptx != stx:
        ctx.violation('c13.print_route_differs', f'PRINT FROM {clauses}: {len(ptx)} transactions printed, the SELECT route saw {len(stx)}', case)
        return False
    # 6. CLOSE before OPEN is rejected at compile time
    if use_open:
        # in every statement kind, with and without a filter expression, with and without CLEAR; equal dates are accepted
        early = d - datetime.timedelta(days=rng.choice([1, 30]))
        fexpr = rng.choice(['', '', 'year >= 2019 ', 'flag = "*" ', 'NOT "x" IN tags ', 'has_account("Assets") '])
        tail = rng.choice(['', ' CLEAR'])
        stmt = rng.choice(['SELECT account FROM {}', 'SELECT account, sum(position) AS s FROM {} GROUP BY account', 'BALANCES FROM {}', 'JOURNAL "Assets" FROM {}', 'PRINT FROM {}',
                           'SELECT account WHERE account IN (SELECT account FROM {})'])
        bad = stmt.format(f'{fexpr}OPEN ON {d} CLOSE ON {early}{tail}')
        ctx.count('obs.close_before_open_with_filter' if fexpr else 'obs.close_before_open_without_filter')
        try:
            compiler.compile(conn, conn.parse(bad))
            ctx.violation('c13.close_before_open_accepted', f'{bad} is accepted', dict(case, statement=bad))
        except engine.bq().CompilationError:
            ctx.count('obs.close_before_open_rejected')
        except Exception as exc:  # noqa: BLE001
            ctx.violation('c13.close_before_open_wrong_exception', f'{bad}: {exc!r}', dict(case, statement=bad))
        same = stmt.format(f'{fexpr}OPEN ON {d} CLOSE ON {d}{tail}')
        try:
            compiler.compile(conn, conn.parse(same))
            ctx.count('obs.close_on_open_date_accepted')
        except Exception as exc:  # noqa: BLE001
            ctx.violation('c13.close_on_open_date_rejected', f'{same}: {exc!r}', dict(case, statement=same))
    # 7. the connection is unchanged
    after = digest_entries(entries)
    plain_after = conn.execute('SELECT id, account, position FROM #postings').fetchall()
    ctx.count('obs.digest_comparisons')
    if before != after or plain_before != plain_after:
        ctx.violation('c13.connection_changed', f'after {text} the connection\'s entries or a plain query changed', case)


def _position(p):
    from beancount.core.position import Position
    return Position(p.units, p.cost)


def ledgers_digest(led):
    from ..core import stable_hash
    return stable_hash(led.text)[:12]


def named_query_sessions(ctx, i):
    """Shell sessions over a ledger with `query` directives: `.run name` closes the period at the directive's date unless
    the statement has a CLOSE of its own; the very same statement text typed at the prompt does not. Lines of both kinds
    in random order; every output equals the API result (fresh connection, csv) of the statement with the clause spelled out."""
    import contextlib
    import io
    import os
    import tempfile
    import beanquery
    from beanquery import shell, query_render
    from beancount import loader
    rng = ctx.rng('named', i)
    led = ledgers.gen_ledger(rng, ntxn=rng.randint(6, 14), with_queries=False, start_year=2019, nyears=3)
    shapes = [
        ('SELECT date, account, position, balance FROM {f} WHERE account ~ "Assets" ORDER BY date, account', True),
        ('SELECT account, sum(position) AS s FROM {f} GROUP BY account ORDER BY account', True),
        ('SELECT account, units(sum(position)) AS u FROM {f} WHERE number > 0 GROUP BY account ORDER BY account', True),
        ('SELECT count(*) AS n, first(date) AS a, last(date) AS b FROM {f}', True),
    ]
    # (expression, OPEN ON, CLOSE ON, CLEAR): the grammar wants them in this order
    froms = [(None, '2020-01-01', None, False), (None, None, None, True), (None, '2019-06-01', None, True), ('year >= 2019', None, None, False),
             ('flag = "*"', '2020-03-01', None, False), (None, '2020-02-01', '2021-02-01', False), (None, None, '2020-09-01', False),
             ('year >= 2019', '2019-03-01', None, True)]

    def from_text(f, default_close=None):
        expr, open_, close, clear = f
        close = close or default_close
        return ' '.join(x for x in (expr, f'OPEN ON {open_}' if open_ else None, f'CLOSE ON {close}' if close else None, 'CLEAR' if clear else None) if x)
    dates = ['2019-08-15', '2020-05-10', '2020-11-20', '2021-03-01', '2021-12-31']
    queries = {}       # name -> (date, template, from-clause)
    lines_q = []
    for k in range(rng.randint(3, 6)):
        tmpl, _ = rng.choice(shapes)
        f = rng.choice(froms)
        if k >= 2 and rng.random() < 0.5:
            # the same statement text under another name and date
            _, tmpl, f = queries[rng.choice(sorted(queries))]
        d = rng.choice(dates)
        name = f'q{k}'
        queries[name] = (d, tmpl, f)
        text = tmpl.format(f=from_text(f)).replace('"', "'")
        lines_q.append(f'{d} query "{name}" "{text}"')
    ledger_text = led.text + '\n' + '\n'.join(lines_q) + '\n'
    case = {'ledger': ledger_text}
    fd, path = tempfile.mkstemp(suffix='.beancount', prefix='bqv-c13-')
    os.close(fd)
    try:
        with open(path, 'w') as f_:
            f_.write(ledger_text)
        entries, errors, options = loader.load_file(path)
        out = io.StringIO()
        with contextlib.redirect_stdout(io.StringIO()), contextlib.redirect_stderr(io.StringIO()):
            sh = shell.BQLShell(path, out, interactive=False, runinit=False, format='csv')
        session = []
        for _ in range(rng.randint(5, 10)):
            name = rng.choice(sorted(queries))
            session.append((rng.choice(['run', 'typed']), name))
        history = []
        for kind, name in session:
            d, tmpl, f = queries[name]
            text = tmpl.format(f=from_text(f)).replace('"', "'")
            spelled = text if kind == 'typed' else tmpl.format(f=from_text(f, default_close=d)).replace('"', "'")
            conn = beanquery.connect('beancount:', entries=entries, errors=errors, options=options)
            buf = io.StringIO()
            rejected = None
            try:
                curs = conn.execute(spelled)
                query_render.render_csv(curs.description, curs.fetchall(), options['dcontext'], buf, expand=False, nullvalue='')
            except beanquery.ProgrammingError as exc:
                rejected = exc           # e.g. the default CLOSE date is before the OPEN date
            out.seek(0)
            out.truncate()
            raised = None
            with contextlib.redirect_stdout(io.StringIO()) as so, contextlib.redirect_stderr(io.StringIO()) as se:
                try:
                    sh.onecmd(f'.run {name}' if kind == 'run' else text + ';')
                except beanquery.ProgrammingError as exc:
                    raised = exc
                except Exception as exc:  # noqa: BLE001
                    ctx.violation(f'c13.shell_raised.{type(exc).__name__}', f'{kind} {name}: {type(exc).__name__}: {exc}', dict(case, history=history))
                    return
            got = out.getvalue()
            history.append(f'.run {name}' if kind == 'run' else text)
            if rejected is not None:
                ctx.count('obs.named_query_rejected')
                if raised is None and not se.getvalue() and got:
                    ctx.violation('c13.named_query_period', f'{history[-1]!r}: the API rejects {spelled!r} ({rejected}) but the shell printed a result', dict(case, history=history))
                    return
                continue
            if raised is not None:
                ctx.violation('c13.named_query_period', f'{history[-1]!r}: the shell rejects it ({raised}) but the API accepts {spelled!r}', dict(case, history=history))
                return
            ctx.count(f'obs.named_query_lines.{kind}')
            ctx.case(('named', ledger_text, tuple(history)), spelled != text or kind == 'typed')
            if spelled != text:
                ctx.count('obs.named_query_default_close_applied')
            if got != buf.getvalue():
                ctx.violation('c13.named_query_period',
                              f'line {len(history)} of a shell session ({history[-1]!r}): the output differs from the API result of {spelled!r} '
                              f'({len(got.splitlines())} lines vs {len(buf.getvalue().splitlines())}); stderr {se.getvalue()[:120]!r}',
                              dict(case, history=history, shell_output=got[:600], api_output=buf.getvalue()[:600]))
                return
        ctx.count('obs.named_query_sessions')
    finally:
        os.unlink(path)


def run(ctx):
    engine.bq()
    for n in range(ctx.pick(25, 800)):
        if ctx.out_of_time():
            break
        run_case(ctx, n)
        if n % 3 == 0:
            named_query_sessions(ctx, n)


def replay(ctx, case):
    engine.bq()
    run_case(ctx, case['replay'][1])


def finalize(merged):
    c = merged['counters']
    reasons = []
    subsets = merged['sets'].get('clause_subsets', set())
    if len(subsets) < 10:
        reasons.append(f'only {len(subsets)} of the clause subsets observed: {sorted(subsets)}')
    for k in ('obs.original_transactions_cut', 'obs.original_transactions_kept', 'obs.balance_sheet_accounts_compared',
              'obs.income_statement_accounts_compared', 'obs.filter_relations', 'obs.print_route', 'obs.balances_route', 'obs.journal_route',
              'obs.close_before_open_rejected', 'obs.close_before_open_with_filter', 'obs.close_before_open_without_filter', 'obs.digest_comparisons', 'obs.statements_on_shared_connection', 'obs.subselect_clause_relations',
              'obs.named_query_sessions', 'obs.reference_view_comparisons', 'obs.print_with_filter_and_period', 'obs.named_query_lines.run', 'obs.named_query_lines.typed', 'obs.named_query_default_close_applied'):
        if c.get(k, 0) == 0:
            reasons.append(f'{k} == 0')
    return reasons

"""C17 — numberify decomposes amounts per currency without losing or inventing quantities.

Oracle: per-currency unit extraction written in the harness (R6) applied to the
original result table; icontract post-condition on the real numberify_results
(row count preserved) active in every call.
"""
import datetime
from decimal import Decimal

from .. import engine, ledgers
from ..values import show, show_rows, same

ID = 'C17'
LEVEL = 'exploration'
RULE = ('Generated result tables mixing plain columns (int, str, date, decimal, bool, set) and amount-like columns (Amount, Position, '
        'Inventory) with 0-6 currencies, several lots per currency, NULL cells in every amount-like column type, zero amounts, empty '
        'inventories and empty tables, with and without a display formatter; plus real query results through run_query(numberify=True). '
        'Distinct by table digest; non-trivial when an amount-like column holds >= 2 currencies.')
ASSUMPTIONS = ['a currency "occurs" in a column when some row holds an amount/position/lot of it',
               'display_context.DisplayContext.quantize defines the display precision of a currency']
D = Decimal
CURRENCIES = ['USD', 'EUR', 'HOOL', 'VTI', 'CAD', 'JPY']


class PostBroken(Exception):
    pass


_evals = [0]


def install_contract():
    from ..core import ensure_deps
    ensure_deps()
    import icontract
    from beanquery import numberify
    if getattr(numberify, '_bqv_contract', False):
        return

    def same_row_count(columns, drows, result):
        _evals[0] += 1
        otypes, orows = result
        return len(orows) == len(drows) and all(len(r) == len(otypes) for r in orows)

    numberify.numberify_results = icontract.ensure(same_row_count, error=PostBroken)(numberify.numberify_results)
    numberify._bqv_contract = True


def gen_table(rng):
    from beancount.core import amount, position, inventory
    from beancount.core.data import Cost
    from beanquery import Column
    ncur = rng.choice([0, 1, 2, 3, 6])
    curs = rng.sample(CURRENCIES, ncur) if ncur else []
    kinds = []
    for _ in range(rng.randint(1, 5)):
        kinds.append(rng.choice(['int', 'str', 'date', 'decimal', 'amount', 'amount', 'position', 'position', 'inventory', 'inventory', 'bool', 'set']))
    dtypes = {'int': int, 'str': str, 'date': datetime.date, 'decimal': Decimal, 'amount': amount.Amount, 'position': position.Position,
              'inventory': inventory.Inventory, 'bool': bool, 'set': set}
    names = [f'c{i}_{k}' for i, k in enumerate(kinds)]
    if rng.random() < 0.25:
        # columns of equal name and datatype (SELECT a AS x, b AS x): every one is still converted from its own cells. (An
        # amount column right after another one keeps a name of its own: the output columns of the two could not be told apart.)
        for i, k in enumerate(kinds):
            if i == 0 or k not in ('amount', 'position', 'inventory') or kinds[i - 1] not in ('amount', 'position', 'inventory'):
                names[i] = f'x_{k}'
    desc = tuple(Column(names[i], dtypes[k]) for i, k in enumerate(kinds))
    nullp = rng.choice([0, 0.2, 0.5])

    def number():
        return rng.choice([D('0'), D('1'), D('-2.5'), D('100.123456'), D('0.001'), D('12345.678'), D('-0.00'), D('3.10')])

    def value(k):
        if rng.random() < nullp:
            return None
        if k == 'int':
            return rng.randint(-5, 5)
        if k == 'str':
            return rng.choice(['a', '', 'USD', 'x (USD)'])
        if k == 'date':
            return datetime.date(2020, rng.randint(1, 12), rng.randint(1, 28))
        if k == 'decimal':
            return number()
        if k == 'bool':
            return rng.random() < 0.5
        if k == 'set':
            return frozenset(rng.sample(['a', 'b', 'c'], rng.randint(0, 2)))
        if not curs:
            if k == 'inventory':
                return inventory.Inventory()
            return None
        if k == 'amount':
            return amount.Amount(number(), rng.choice(curs))
        if k == 'position':
            cur = rng.choice(curs)
            cost = Cost(D(rng.randint(1, 99)), rng.choice(CURRENCIES), datetime.date(2020, 1, rng.randint(1, 28)), None) if rng.random() < 0.4 else None
            return position.Position(amount.Amount(number(), cur), cost)
        inv = inventory.Inventory()
        for _ in range(rng.randint(0, 4)):
            cur = rng.choice(curs)
            cost = Cost(D(rng.randint(1, 99)), 'USD', datetime.date(2020, 1, rng.randint(1, 28)), None) if rng.random() < 0.5 else None
            inv.add_amount(amount.Amount(rng.choice([D('1'), D('2.5'), D('-3'), D('10.001')]), cur), cost)
        return inv
    rows = [tuple(value(k) for k in kinds) for _ in range(rng.choice([0, 1, 2, 5, 9]))]
    return desc, rows, kinds


def units_of(v, kind, cur):
    """Units of currency `cur` held by value v (None when the currency is absent)."""
    if v is None:
        return None
    if kind == 'amount':
        return v.number if v.currency == cur else None
    if kind == 'position':
        return v.units.number if v.units.currency == cur else None
    nums = [p.units.number for p in v.get_positions() if p.units.currency == cur]
    return sum(nums, D(0)) if nums else None


def currencies_of(v, kind):
    if v is None:
        return set()
    if kind == 'amount':
        return {v.currency}
    if kind == 'position':
        return {v.units.currency}
    return {p.units.currency for p in v.get_positions()}


def check(ctx, desc, rows, kinds, dcontext, use_format, case):
    from beanquery import numberify
    dformat = dcontext.build() if use_format else None
    rows_in = [tuple(r) for r in rows]
    try:
        otypes, orows = numberify.numberify_results(desc, rows, dformat)
    except PostBroken as exc:
        ctx.violation('c17.row_count', f'numberify changed the number of rows or row widths: {exc}', case)
        return
    except Exception as exc:  # noqa: BLE001
        mech = 'c17.exception'
        if isinstance(exc, AttributeError) and 'NoneType' in str(exc):
            mech = 'c17.null_inventory_cell'
        ctx.violation(mech, f'numberify raised {type(exc).__name__}: {exc}', case)
        return
    if [tuple(r) for r in rows] != rows_in:
        ctx.violation('c17.input_mutated', 'numberify mutated its input rows', case)
        return
    if len(orows) != len(rows):
        ctx.violation('c17.row_count', f'{len(rows)} rows in, {len(orows)} rows out', case)
        return
    # walk the output columns
    oi = 0
    for ci, (col, kind) in enumerate(zip(desc, kinds)):
        if kind not in ('amount', 'position', 'inventory'):
            if oi >= len(otypes) or otypes[oi].name != col.name or otypes[oi].datatype is not col.datatype:
                ctx.violation('c17.plain_column_changed', f'column {col.name} is not carried over unchanged (description)', case)
                return
            for r_in, r_out in zip(rows, orows):
                if r_out[oi] is not r_in[ci] and not same(r_out[oi], r_in[ci]):
                    ctx.violation('c17.plain_column_changed', f'column {col.name}: {show(r_in[ci])} became {show(r_out[oi])}', case)
                    return
            oi += 1
            continue
        freq = {}
        for r in rows:
            for cur in currencies_of(r[ci], kind):
                freq[cur] = freq.get(cur, 0) + 1
        got = []
        while oi < len(otypes) and otypes[oi].name.startswith(col.name + ' (') and otypes[oi].name.endswith(')'):
            got.append((otypes[oi].name[len(col.name) + 2:-1], oi))
            oi += 1
        ctx.count('obs.amount_columns')
        # a currency that occurs only with zero amounts may or may not get a column (the statement only
        # forbids dropping a currency that occurs with a non-zero amount)
        nonzero = {c for c in freq if any((units_of(r[ci], kind, c) or 0) != 0 for r in rows)}
        freq_nz = {c: sum(1 for r in rows if (units_of(r[ci], kind, c) or 0) != 0) for c in freq}
        gotset = {c for c, _ in got}
        if not (nonzero <= gotset <= set(freq)):
            missing = nonzero - gotset
            mech = 'c17.currency_dropped' if missing else 'c17.currency_columns'
            ctx.violation(mech, f'column {col.name}: currency columns {[c for c, _ in got]}, currencies occurring {sorted(freq)} (non-zero: {sorted(nonzero)})', case)
            return
        if len(set(c for c, _ in got)) != len(got):
            ctx.violation('c17.currency_columns', f'column {col.name}: duplicate currency columns', case)
            return
        fr = [freq[c] for c, _ in got]
        fr_nz = [freq_nz[c] for c, _ in got]
        if any(a < b for a, b in zip(fr, fr[1:])) and any(a < b for a, b in zip(fr_nz, fr_nz[1:])):
            ctx.violation('c17.column_order', f'column {col.name}: currency columns {[c for c, _ in got]} not by decreasing frequency {fr}', case)
            return
        for cur, j in got:
            if otypes[j].datatype is not Decimal:
                ctx.violation('c17.column_type', f'column {otypes[j].name} announced {otypes[j].datatype}', case)
                return
            for rn, (r_in, r_out) in enumerate(zip(rows, orows)):
                exp = units_of(r_in[ci], kind, cur)
                cell = r_out[j]
                ctx.count('obs.cells_checked')
                if exp is not None and use_format:
                    exp = dcontext.quantize(exp, cur)
                if exp is None:
                    ok = cell is None or cell == 0
                else:
                    ok = (cell == exp and (not use_format or cell.as_tuple().exponent == exp.as_tuple().exponent)) or (exp == 0 and cell is None)
                if not ok:
                    ctx.violation('c17.cell_value', f'column {otypes[j].name} row {rn}: {show(cell)} expected {show(exp)} from {r_in[ci]}', case)
                    return
    if oi != len(otypes):
        ctx.violation('c17.extra_columns', f'{len(otypes) - oi} unexpected output columns', case)


def dcontext_for(rng):
    from beancount.core import display_context
    dc = display_context.DisplayContext()
    # now and then the context has never seen some of the currencies (directives built in Python, plug-ins, foreign
    # options): their numbers are then left as they are
    known = CURRENCIES if rng.random() < 0.7 else [c for c in CURRENCIES if rng.random() < 0.6]
    for cur in known:
        for _ in range(3):
            dc.update(D(rng.choice(['1.00', '2.50', '0.001', '10', '3.1234'])), cur)
    return dc


def run_case(ctx, n):
    rng = ctx.rng('case', n)
    desc, rows, kinds = gen_table(rng)
    dc = dcontext_for(rng)
    use_format = rng.random() < 0.5
    case = {'replay': ['case', n], 'description': [(c.name, getattr(c.datatype, '__name__', str(c.datatype))) for c in desc],
            'rows': show_rows(rows, 12), 'formatter': use_format}
    ncur = max((len({cur for r in rows for cur in currencies_of(r[i], k)}) for i, k in enumerate(kinds) if k in ('amount', 'position', 'inventory')), default=0)
    ctx.case(repr(case['description']) + repr(case['rows']) + str(use_format), ncur >= 2)
    ctx.count('obs.tables')
    ctx.count('obs.null_amount_cells', sum(1 for r in rows for i, k in enumerate(kinds) if k in ('amount', 'position', 'inventory') and r[i] is None))
    if len(ctx.samples) < 3 and ncur >= 2:
        ctx.sample(case)
    check(ctx, desc, rows, kinds, dc, use_format, case)


def ledger_route(ctx, i):
    """Real query results through run_query(numberify=True)."""
    from beanquery import query
    rng = ctx.rng('ledger', i)
    led = ledgers.gen_ledger(rng, ntxn=10)
    entries, errors, options = led.loaded
    for text, kinds in [('SELECT account, sum(position) AS total GROUP BY account', ['str', 'inventory']),
                        ('SELECT date, position, weight, price WHERE number > 0', ['date', 'position', 'amount', 'amount']),
                        ('SELECT account, year, sum(position) AS s GROUP BY 1, 2 PIVOT BY 1, 2', None),
                        ('SELECT account, balance WHERE account ~ "Nope"', ['str', 'inventory']),
                        ('SELECT account, position.units AS amt WHERE number != 0', ['str', 'amount']),
                        # columns of the typed tables, the renamed ones among them (discrepancy, name)
                        ('SELECT account, amount, discrepancy FROM #balances', ['str', 'amount', 'amount']),
                        ('SELECT date, currency, amount FROM #prices', ['date', 'str', 'amount']),
                        ('SELECT name, date FROM #commodities', ['str', 'date']),
                        ('SELECT weight.currency AS c, price AS p, position.units AS u, entry.flag AS f', ['str', 'amount', 'amount', 'str'])]:
        case = {'statement': text, 'ledger': led.text}
        try:
            plain_t, plain_r = query.run_query(entries, options, text)
            plain_r = [tuple(r) for r in plain_r]
            num_t, num_r = query.run_query(entries, options, text, numberify=True)
        except PostBroken as exc:
            ctx.violation('c17.row_count', f'{text}: {exc}', case)
            continue
        except Exception as exc:  # noqa: BLE001
            mech = 'c17.null_inventory_cell' if isinstance(exc, AttributeError) and 'NoneType' in str(exc) else 'c17.exception'
            ctx.violation(mech, f'run_query(numberify=True) {text}: {type(exc).__name__}: {exc}', case)
            continue
        ctx.case(('ledger', text, i, ctx.shard), True)
        ctx.count('obs.run_query_cases')
        if kinds is None:
            from beancount.core import inventory
            kinds = ['inventory' if c.datatype is inventory.Inventory else 'str' for c in plain_t]
        dc = options['dcontext']
        # redo through the oracle with the ledger's display context
        check(ctx, plain_t, plain_r, kinds, dc, True, case)


def refusal_sequence(ctx, i):
    """numberify on a result the display context cannot quantize (a number of 10^12 or more: refused with
    decimal.InvalidOperation, see the known finding), then on an ordinary result with the same currencies: the second one is
    quantized as if nothing had happened."""
    from decimal import InvalidOperation
    from beancount.core import amount
    from beanquery import numberify, Column
    rng = ctx.rng('refusal', i)
    dc = dcontext_for(rng)
    cur = rng.choice(CURRENCIES)
    desc = (Column('k', str), Column('a', amount.Amount))
    huge = [('big', amount.Amount(D(rng.choice(['2000000000000', '1234567890123.456', '-9999999999999.5'])), cur)), ('small', amount.Amount(D('1234.5678'), cur))]
    normal_desc, normal_rows, kinds = gen_table(rng)
    case = {'sequence': f'numberify of an amount >= 10^12 {cur}, then of an ordinary table', 'rows': show_rows(normal_rows, 8)}
    try:
        numberify.numberify_results(desc, huge, dc.build())
        ctx.count('obs.refusal_sequence.accepted')
    except InvalidOperation as exc:
        ctx.count('obs.refusal_sequence.refused')
        ctx.violation('c17.amount_beyond_display_context_range', f'numberify_results with a formatter raised decimal.InvalidOperation for {huge[0][1]}', case)
    except PostBroken:
        pass
    except Exception as exc:  # noqa: BLE001
        ctx.violation('c17.exception', f'numberify raised {type(exc).__name__}: {exc}', case)
        return
    ctx.case(('refusal', cur, repr(normal_rows)), True)
    check(ctx, normal_desc, normal_rows, kinds, dc, True, dict(case, phase='after a refused numberify'))
    check(ctx, desc, [('small', amount.Amount(D('1234.5678'), cur)), ('other', amount.Amount(D('0.125'), cur))], ['str', 'amount'], dc, True, dict(case, phase='after a refused numberify'))


RELOAD_STATEMENTS = [
    'SELECT account, sum(position) AS total GROUP BY account ORDER BY account',
    'SELECT date, account, position, weight WHERE number != 0 ORDER BY date, account',
    'SELECT account, units(sum(position)) AS u, cost(sum(position)) AS c GROUP BY account ORDER BY account',
]


def shell_reload_route(ctx, i):
    """Shell sessions with numberify on: statements, then the ledger file is rewritten so that the display precision of
    some currencies changes, `.reload`, the same statements again. After the reload the session prints what a fresh
    session on the rewritten file prints, and every numberified cell is the quantity it stands for, quantized with the
    rewritten ledger's display context."""
    import contextlib
    import io
    import os
    import tempfile
    from beanquery import shell
    from beancount import loader
    rng = ctx.rng('reload', i)
    led = ledgers.gen_ledger(rng, ntxn=rng.randint(4, 10), with_queries=False)
    cur = rng.choice(['USD', 'EUR'])
    places = rng.choice([3, 4, 0])
    extra = []
    for k in range(40):
        q = f'{rng.randint(1, 9)}.{rng.randint(0, 10 ** places - 1):0{places}d}' if places else str(rng.randint(1, 99))
        extra.append(f'2021-0{1 + k % 9}-1{k % 9} * "precision {k}"\n  Assets:Cash  {q} {cur}\n  Expenses:Food  -{q} {cur}\n')
    text2 = led.text + '\n' + '\n'.join(extra)
    case = {'ledger': led.text, 'appended': f'40 transactions in {cur} with {places} fractional digits'}
    fd, path = tempfile.mkstemp(suffix='.beancount', prefix='bqv-c17-')
    os.close(fd)

    def session(texts):
        out = io.StringIO()
        with contextlib.redirect_stdout(io.StringIO()), contextlib.redirect_stderr(io.StringIO()):
            sh = shell.BQLShell(path, out, interactive=False, runinit=False, format='csv', numberify=True)
        return sh, out

    def run_lines(sh, out, lines):
        res = []
        for line in lines:
            out.seek(0)
            out.truncate()
            with contextlib.redirect_stdout(io.StringIO()), contextlib.redirect_stderr(io.StringIO()) as err:
                sh.onecmd(line)
            res.append((out.getvalue(), err.getvalue()))
        return res
    try:
        with open(path, 'w') as f:
            f.write(led.text)
        stmts = rng.sample(RELOAD_STATEMENTS, rng.randint(1, len(RELOAD_STATEMENTS)))
        try:
            sh, out = session(None)
            first = run_lines(sh, out, stmts)
            with open(path, 'w') as f:
                f.write(text2)
            run_lines(sh, out, ['.reload'])
            after = run_lines(sh, out, stmts)
            sh2, out2 = session(None)
            fresh = run_lines(sh2, out2, stmts)
        except Exception as exc:  # noqa: BLE001
            ctx.violation(f'c17.shell_session_raised.{type(exc).__name__}', f'shell session with .reload: {type(exc).__name__}: {exc}', case)
            return
        ctx.count('obs.reload_sessions')
        changed = any(a != b for a, b in zip(first, after))
        ctx.case(('reload', led.text, cur, places, tuple(stmts)), changed)
        if changed:
            ctx.count('obs.reload_sessions_output_changed')
        for st, (a, aerr), (b, berr) in zip(stmts, after, fresh):
            if a != b:
                la, lb = a.splitlines(), b.splitlines()
                k = next((n for n, (x, y) in enumerate(zip(la + [None], lb + [None])) if x != y), 0)
                ctx.violation('c17.numberify_after_reload',
                              f'{st} (numberify, csv) after the ledger file was rewritten and reloaded: line {k} is {la[k] if k < len(la) else None!r}, '
                              f'a fresh session on the same file prints {lb[k] if k < len(lb) else None!r}', dict(case, statement=st))
                break
        # the fresh session against the API: numberify_results on the result of a new connection, rendered by the csv renderer
        import beanquery
        from beanquery.numberify import numberify_results
        from beanquery import query_render
        entries, errors, options = loader.load_file(path)
        conn = beanquery.connect('beancount:', entries=entries, errors=errors, options=options)
        for st, (b, _) in zip(stmts, fresh):
            curs = conn.execute(st)
            desc, rows = numberify_results(curs.description, curs.fetchall(), options['dcontext'].build())
            buf = io.StringIO()
            query_render.render_csv(desc, rows, options['dcontext'], buf, expand=False, nullvalue='')
            if buf.getvalue() != b:
                ctx.violation('c17.shell_numberify_vs_api', f'{st}: the shell (numberify, csv) prints something else than numberify_results on the API result rendered as csv',
                              dict(case, statement=st, shell=b[:400], api=buf.getvalue()[:400]))
                break
    finally:
        os.unlink(path)


def run(ctx):
    engine.bq()
    install_contract()
    for n in range(ctx.pick(400, 12000)):
        if ctx.out_of_time():
            break
        run_case(ctx, n)
    for i in range(ctx.pick(2, 30)):
        ledger_route(ctx, i)
    for i in range(ctx.pick(3, 40)):
        shell_reload_route(ctx, i)
    for i in range(ctx.pick(6, 80)):
        refusal_sequence(ctx, i)
    ctx.count('obs.contract_evaluations', _evals[0])


def replay(ctx, case):
    engine.bq()
    install_contract()
    if case and 'replay' in case:
        run_case(ctx, case['replay'][1])


def finalize(merged):
    c = merged['counters']
    reasons = []
    for k in ('obs.tables', 'obs.amount_columns', 'obs.cells_checked', 'obs.null_amount_cells', 'obs.run_query_cases', 'obs.contract_evaluations', 'obs.reload_sessions_output_changed'):
        if c.get(k, 0) == 0:
            reasons.append(f'{k} == 0')
    return reasons

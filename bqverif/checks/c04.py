"""C04 — type soundness: announced datatypes are truthful; accepted queries run type-safe.

Monitors: M2 (every node's value conforms to the node's dtype), description-vs-cell
conformance at the API boundary, M6 exception classification (TypeError /
AttributeError escaping execute of an accepted statement).
Workloads: sweep of the *real* operator and function registries, every column of
every Beancount-backed table, attribute/subscript chains on every structured type,
DISTINCT / GROUP BY / ORDER BY over every column type the compiler accepts.
"""
import datetime
import itertools
from decimal import Decimal

from .. import engine, ledgers, monitors
from ..values import conforms, show, show_rows

ID = 'C04'
LEVEL = 'exploration'
RULE = ('Registry sweep: at run time every overload of the real OPERATORS and FUNCTIONS registries is applied (a) to column '
        'operands of exactly its declared types (`any` instantiated with int, str, date, bool, object, inventory) over tables '
        'of conforming values incl. NULLs and (b) to literal operands (constant folding); plus every column of every '
        'Beancount-backed table over generated ledgers, every attribute/subscript chain on structured types (depth<=3), and '
        'DISTINCT / GROUP BY / ORDER BY / aggregates over every column. Oracle: each cell conforms to the announced datatype, '
        'each evaluated node value conforms to the node dtype, no TypeError/AttributeError escapes an accepted statement. '
        'A case is distinct by statement text + data digest; non-trivial when it returned at least one non-NULL cell.')
ASSUMPTIONS = [
    'conformance is permissive as the property says: object admits anything, collections are compared by kind, '
    'structured types admit the Python type they alias; bool columns must hold bools; int columns admit bools',
    'non-type runtime errors of partial functions (ValueError, IndexError, re.error, OverflowError, InvalidOperation) are counted, not judged',
]

D = Decimal


def value_pools():
    from beancount.core import amount, position, inventory
    from beancount.core.data import Cost
    from dateutil.relativedelta import relativedelta
    A = amount.Amount
    cost = Cost(D('100'), 'USD', datetime.date(2020, 1, 2), 'lot1')
    cost2 = Cost(D('50.5'), 'USD', datetime.date(2019, 5, 5), None)
    P = position.Position
    inv1 = inventory.Inventory()
    inv1.add_amount(A(D('10.00'), 'USD'))
    inv1.add_amount(A(D('3'), 'HOOL'), cost)
    inv2 = inventory.Inventory()
    inv2.add_amount(A(D('-1.5'), 'EUR'))
    return {
        'str': ['Assets:Bank:Checking', 'USD', 'month', '1 day', '%Y-%m-%d', 'a', '', '2020-01-15', 'Expenses:Food', '(a)(b)', '3 months', 'x y z w v u'],
        'int': [0, 1, -1, 2, 5, 12, 100, 2020],
        'decimal': [D('0'), D('1.50'), D('-2'), D('1E+2'), D('0.001')],
        'date': [datetime.date(2020, 1, 1), datetime.date(2020, 2, 29), datetime.date(2019, 12, 31), datetime.date(2021, 6, 15)],
        'bool': [True, False],
        'object': [D('2'), 'abc', '3', datetime.date(2020, 1, 1), True, 7],
        'amount': [A(D('10.00'), 'USD'), A(D('-3'), 'HOOL'), A(D('0'), 'EUR')],
        'position': [P(A(D('3'), 'HOOL'), cost), P(A(D('10.00'), 'USD'), None), P(A(D('-2'), 'VTI'), cost2)],
        'inventory': [inv1, inv2, inventory.Inventory()],
        'interval': [relativedelta(days=1), relativedelta(months=1), relativedelta(years=1, days=-3), relativedelta(days=0)],
        'set': [{'a', 'b'}, set(), {'Assets:Cash'}, frozenset({'x'})],
        'list': [['a', 'b'], [], [1, 2]],
        'dict': [{'a': 1, 'k': 'v'}, {}, {'filename': 'f', 'lineno': 3}],
    }


def py_of():
    from beancount.core import amount, position, inventory
    from dateutil.relativedelta import relativedelta
    return {'str': str, 'int': int, 'decimal': Decimal, 'date': datetime.date, 'bool': bool, 'object': object,
            'amount': amount.Amount, 'position': position.Position, 'inventory': inventory.Inventory,
            'interval': relativedelta, 'set': set, 'list': list, 'dict': dict}


def typed_table(rng, nrows=14):
    """Harness table 'v' with one column per BQL type (c_<type>) and a second one (d_<type>)."""
    from beanquery import tables, query_compile
    pools = value_pools()
    pyt = py_of()
    names = []
    for t in pools:
        names += [(f'c_{t}', t), (f'd_{t}', t)]
    rows = []
    for r in range(nrows):
        row = []
        for n, t in names:
            if r > 0 and rng.random() < 0.15:
                row.append(None)
            else:
                row.append(rng.choice(pools[t]))
        rows.append(tuple(row))
    columns = {}
    for i, (n, t) in enumerate(names):
        def make(i=i, dtype=pyt[t], n=n):
            class Col(query_compile.EvalColumn):
                __slots__ = ()

                def __init__(self):
                    super().__init__(dtype)

                def __call__(self, row):
                    return row[i]
            Col.__name__ = f'VCol_{n}'
            return Col()
        columns[n] = make()

    class VTable(tables.Table):
        name = 'v'

        def __init__(self):
            self.columns = columns

        def __iter__(self):
            return iter(rows)
    return VTable(), rows


def tname(t):
    """Registry type -> harness type names to instantiate it with."""
    from beanquery import types as bqtypes
    from beancount.core import amount, position, inventory
    from dateutil.relativedelta import relativedelta
    if t is bqtypes.Any or isinstance(t, bqtypes.AnyType):
        return ['int', 'str', 'date', 'bool', 'object', 'inventory', 'decimal']
    if t is bqtypes.Asterisk:
        return ['*']
    m = {str: 'str', int: 'int', Decimal: 'decimal', datetime.date: 'date', bool: 'bool', object: 'object',
         amount.Amount: 'amount', position.Position: 'position', inventory.Inventory: 'inventory',
         relativedelta: 'interval', set: 'set', list: 'list', dict: 'dict'}
    if t is int:
        # overload lookup walks the operand type's MRO: a bool column matches an int parameter
        return ['int', 'bool']
    return [m[t]] if t in m else None


OP_SYMBOL = {'Mul': '*', 'Div': '/', 'Mod': '%', 'Add': '+', 'Sub': '-', 'Equal': '=', 'NotEqual': '!=', 'Greater': '>',
             'GreaterEq': '>=', 'Less': '<', 'LessEq': '<=', 'Match': '~', 'NotMatch': '!~', 'In': 'IN', 'NotIn': 'NOT IN'}

LITERALS = {
    'str': ['"Assets:Cash"', '"month"', '"1 day"', '"a"', '""', '"USD"', '"2020-01-15"'],
    'int': ['0', '1', '2', '12', '2020'],
    'decimal': ['0.0', '1.50', '2.'],
    'date': ['2020-01-01', '2020-02-29'],
    'bool': ['TRUE', 'FALSE'],
}

NONTYPE_ERRORS = (ValueError, IndexError, KeyError, OverflowError, ArithmeticError, NotImplementedError)


def registry_cases():
    """-> list of (label, expression template with {0} {1} ... for operands, intype names list, is_aggregate)."""
    from beanquery import query_compile as qc
    from beanquery.parser import ast
    out = []
    for name, funcs in sorted(qc.FUNCTIONS.items()):
        for f in funcs:
            names = [tname(t) for t in f.__intypes__]
            if any(n is None for n in names):
                out.append((f'func:{name}', None, [str(t) for t in f.__intypes__], False))
                continue
            for combo in itertools.product(*names):
                if combo == ('*',):
                    tmpl = f'{name}(*)'
                    combo = ()
                else:
                    tmpl = f'{name}(' + ', '.join('{%d}' % i for i in range(len(combo))) + ')'
                out.append((f'func:{name}({",".join(combo)})', tmpl, list(combo), issubclass(f, qc.EvalAggregator)))
    for op, funcs in qc.OPERATORS.items():
        opname = op.__name__
        for f in funcs:
            names = [tname(t) for t in f.__intypes__]
            if any(n is None for n in names):
                out.append((f'op:{opname}', None, [str(t) for t in f.__intypes__], False))
                continue
            for combo in itertools.product(*names):
                if opname in OP_SYMBOL:
                    tmpl = '({0} %s {1})' % OP_SYMBOL[opname]
                elif opname == 'Not':
                    tmpl = '(NOT {0})'
                elif opname == 'Neg':
                    tmpl = '(-{0})'
                elif opname == 'IsNull':
                    tmpl = '({0} IS NULL)'
                elif opname == 'IsNotNull':
                    tmpl = '({0} IS NOT NULL)'
                elif opname == 'Between':
                    tmpl = '({0} BETWEEN {1} AND {2})'
                else:
                    tmpl = None
                out.append((f'op:{opname}({",".join(combo)})', tmpl, list(combo), False))
    # de-duplicate (several overloads instantiate to the same statement through `any`)
    seen = set()
    uniq = []
    for c in out:
        if c[0] not in seen:
            seen.add(c[0])
            uniq.append(c)
    return uniq


def check_result(ctx, text, desc, rows, mon, case, prefix='c04'):
    """Description-vs-cell conformance + node-level conformance."""
    bad = None
    nonnull = 0
    for r in rows:
        if len(r) != len(desc):
            ctx.violation(f'{prefix}.row_shape', f'{text}: row of {len(r)} cells for {len(desc)} described columns', case)
            return 0
        for cell, col in zip(r, desc):
            if cell is not None:
                nonnull += 1
                if bad is None and not conforms(cell, col.datatype):
                    bad = (col.name, getattr(col.datatype, '__name__', str(col.datatype)), type(cell).__name__, repr(cell)[:60])
    if bad:
        ctx.violation(mech_for_cell(text, bad, prefix), f'{text}: column {bad[0]!r} announced {bad[1]} holds {bad[2]} {bad[3]}', case)
    elif mon.dtype_violations:
        v = mon.dtype_violations[0]
        ctx.violation(f'{prefix}.node_dtype.{v[0]}', f'{text}: node {v[0]} announced {v[1]} returned {v[2]} {v[3]}', case)
    return nonnull


def mech_for_cell(text, bad, prefix):
    return f'{prefix}.cell_type.{bad[1]}_holds_{bad[2]}'


def execute(ctx, conn, text, mon, case, prefix='c04', params=None):
    """Run one statement under the monitors; classify what escapes. -> (desc, rows) or None."""
    beanquery = engine.bq()
    mon.reset()
    mon.enabled = True
    try:
        try:
            cur = conn.execute(text, params)
            desc, rows = cur.description, cur.fetchall()
        finally:
            mon.enabled = False
    except beanquery.ProgrammingError as exc:
        ctx.count('outcome.rejected')
        return None
    except (TypeError, AttributeError) as exc:
        if "'tuple' object has no attribute" in str(exc) and '#v' in text:
            # a row-context function (needs a ledger row) applied to a harness-table row: harness artefact
            ctx.count('outcome.harness_row_context')
            return None
        ctx.count('outcome.type_error')
        mech = classify_type_error(text, exc, prefix, case)
        if mech.endswith('.type_error') and case.get('overload'):
            mech += '.' + case['overload']
        ctx.violation(mech, f'{text}: {type(exc).__name__}: {exc}', case)
        return None
    except NONTYPE_ERRORS as exc:
        ctx.count(f'outcome.nontype_error.{type(exc).__name__}')
        return None
    except Exception as exc:  # noqa: BLE001
        import re
        if isinstance(exc, re.error):
            ctx.count('outcome.nontype_error.re_error')
            return None
        ctx.count(f'outcome.other_error.{type(exc).__name__}')
        ctx.violation(f'{prefix}.unexpected_exception.{type(exc).__name__}', f'{text}: {type(exc).__name__}: {exc}', case)
        return None
    ctx.count('outcome.ok')
    return desc, rows


def classify_type_error(text, exc, prefix, case=None):
    """Mechanism classification of type errors (used for known findings). The
    'unorderable' / 'unhashable value' mechanisms are only assigned when the column's
    declared datatype really is one without a total order / with unhashable values."""
    msg = str(exc)
    up = text.upper()
    case = case or {}
    if case.get('orderable') is True and 'not supported between' in msg:
        return f'{prefix}.type_error.comparison_on_orderable_type'
    if case.get('hashable_values') is True and 'unhashable' in msg:
        return f'{prefix}.type_error.unhashable_on_hashable_type'
    if 'unhashable' in msg and 'DISTINCT' in up:
        return f'{prefix}.distinct_unhashable_value'
    if 'unhashable' in msg and 'GROUP BY' in up:
        return f'{prefix}.group_by_unhashable_value'
    if 'unhashable' in msg and (' IN ' in up) and 'DISTINCT' not in up and 'GROUP BY' not in up:
        return f'{prefix}.in_unhashable_left_operand'
    if ('not supported between' in msg) and 'ORDER BY' in up:
        return f'{prefix}.order_by_unorderable_value'
    if ('not supported between' in msg) and ('MIN(' in up or 'MAX(' in up):
        return f'{prefix}.minmax_unorderable_value'
    if ('not supported between' in msg) and 'PIVOT BY' in up:
        return f'{prefix}.pivot_null_key'
    return f'{prefix}.type_error'


def run(ctx):
    mon = monitors.install()
    rng = ctx.rng('sweep')
    cases = registry_cases()
    total = len(cases)
    ctx.count('registry.instantiations', total if ctx.shard == 0 else 0)
    ntables = ctx.pick(2, 12)
    led = ledgers.gen_ledger(ctx.rng('ledger0'), ntxn=12)
    conn = engine.connection(ledger=led.loaded)
    tabs = []
    for _ in range(ntables):
        vt, rows = typed_table(rng, nrows=ctx.pick(14, 30))
        tabs.append((vt, rows))
    for idx, (label, tmpl, combo, is_agg) in enumerate(cases):
        if not ctx.mine(idx):
            continue
        if ctx.out_of_time():
            break
        if tmpl is None:
            ctx.seen('overloads_not_constructible', label + str(combo))
            continue
        ctx.seen('overloads_exercised', label)
        for form in ('c', 'd', 'lit'):
            if form == 'lit':
                if not combo or not all(t in LITERALS for t in combo):
                    continue
                variants = list(itertools.islice(itertools.product(*(LITERALS[t] for t in combo)), 12))
                exprs = [tmpl.format(*v) for v in variants]
            elif form == 'c':
                exprs = [tmpl.format(*[f'c_{t}' for t in combo])]
            else:
                # second operand from the d_ columns so that operands differ
                exprs = [tmpl.format(*[(f'c_{t}' if i % 2 == 0 else f'd_{t}') for i, t in enumerate(combo)])]
            for expr in exprs:
                for vt, rows in tabs:
                    conn.tables['v'] = vt
                    text = f'SELECT {expr} AS r FROM #v'
                    case = {'statement': text, 'overload': label,
                            'hashable_values': not any(t in ('inventory', 'set', 'list', 'dict') for t in combo[:1])}
                    res = execute(ctx, conn, text, mon, case)
                    if res is None:
                        ctx.case((text, id(vt)), False)
                        continue
                    nonnull = check_result(ctx, text, res[0], res[1], mon, case)
                    ctx.case((text, tabs.index((vt, rows))), nonnull > 0)
                    ctx.count('obs.cells_checked', len(res[1]))
                    ctx.count('obs.node_evaluations', mon.node_evals - run.last)
                    run.last = mon.node_evals
                    if len(ctx.samples) < 3 and nonnull:
                        ctx.sample({'statement': text, 'announced': getattr(res[0][0].datatype, '__name__', str(res[0][0].datatype)),
                                    'rows': show_rows(res[1], 3)})
                    if form == 'lit':
                        break
                if form == 'lit' and label.startswith('func:') and not is_agg:
                    text = f'SELECT {expr} AS r FROM #postings'
                    case = {'statement': text, 'overload': label, 'ledger': led.text}
                    res = execute(ctx, conn, text, mon, case)
                    if res is not None:
                        nonnull = check_result(ctx, text, res[0], res[1], mon, case)
                        ctx.case((text, 'postings'), nonnull > 0)
    special_forms(ctx, mon, conn, tabs, cases)
    if ctx.shard % 2 == 0 or not ctx.quick:
        failed_execution_part(ctx, mon)
    ledger_columns(ctx, mon)
    if ctx.shard % 4 == 1 or not ctx.quick:
        subquery_histories(ctx, mon)
    if ctx.shard % 4 == 2 or not ctx.quick:
        pivot_statements(ctx, mon)
    if ctx.shard == 3 % ctx.nshards:
        testsuite_under_monitors(ctx)


run.last = 0


def special_forms(ctx, mon, conn, tabs, cases):
    """Forms the compiler types by special rules instead of an overload look-up (coalesce, NULL literals, placeholders
    bound to None or to a value, subscripts) and registry forms with one operand replaced by NULL: most of these are
    rejected -- whatever is accepted has to keep its announced datatype."""
    pools = value_pools()
    types = list(pools)
    stmts = []      # (text, params, label)
    for a in types:
        stmts.append((f'SELECT coalesce(c_{a}) AS r FROM #v', None, 'coalesce/1'))
        stmts.append((f'SELECT coalesce(c_{a}, NULL) AS r FROM #v', None, 'coalesce/null-last'))
        stmts.append((f'SELECT coalesce(NULL, c_{a}) AS r FROM #v', None, 'coalesce/null-first'))
        stmts.append((f'SELECT coalesce(c_{a}, NULL, d_{a}) AS r FROM #v', None, 'coalesce/null-middle'))
        stmts.append((f'SELECT coalesce(c_{a}, d_{a}, NULL) AS r FROM #v', None, 'coalesce/null-last'))
        stmts.append((f'SELECT coalesce(c_{a}, %s) AS r FROM #v', (None,), 'coalesce/param-none'))
        stmts.append((f'SELECT coalesce(%s, c_{a}) AS r FROM #v', (None,), 'coalesce/param-none'))
        stmts.append((f'SELECT coalesce(c_{a}, %(x)s, %(x)s) AS r FROM #v', {'x': None}, 'coalesce/param-none'))
        for v in pools[a][:2]:
            stmts.append(('SELECT %s AS r FROM #v', (v,), 'param/value'))
            stmts.append((f'SELECT coalesce(c_{a}, %s) AS r FROM #v', (v,), 'coalesce/param-value'))
            stmts.append((f'SELECT coalesce(%s, c_{a}) AS r FROM #v', (v,), 'coalesce/param-value'))
        for b in types:
            if a != b:
                stmts.append((f'SELECT coalesce(c_{a}, d_{b}) AS r FROM #v', None, 'coalesce/mixed'))
                if ctx.tier != 'quick' or (types.index(a) + types.index(b)) % 3 == 0:
                    stmts.append((f'SELECT coalesce(c_{a}, d_{b}, NULL) AS r FROM #v', None, 'coalesce/mixed'))
                    stmts.append((f'SELECT coalesce(c_{a}, %s) AS r FROM #v', (pools[b][0],), 'coalesce/param-mixed'))
    # AND / OR / NOT accept operands of any type: their result is announced bool whatever the operands hold
    for a in types:
        stmts.append((f'SELECT NOT c_{a} AS r FROM #v', None, 'logic/not'))
        stmts.append((f'SELECT c_{a} AND TRUE AS r, TRUE AND c_{a} AS q, c_{a} OR FALSE AS u, FALSE OR c_{a} AS w FROM #v', None, 'logic/with-constant'))
        stmts.append((f'SELECT sum(c_{a} AND d_bool) AS r, count(c_{a} OR d_{a}) AS q FROM #v', None, 'logic/aggregated'))
        for b in types:
            stmts.append((f'SELECT c_{a} AND d_{b} AS r, c_{a} OR d_{b} AS q FROM #v', None, 'logic/binary'))
            if (types.index(a) + types.index(b)) % 4 == 0:
                stmts.append((f'SELECT c_{a} AND d_{b} AND d_{a} AS r, c_{a} OR d_{b} OR d_{a} AS q, NOT (c_{a} AND d_{b}) AS u FROM #v', None, 'logic/ternary'))
                stmts.append((f'SELECT x FROM (SELECT c_{a} AND d_{b} AS x FROM #v) WHERE x OR NOT x OR x IS NULL', None, 'logic/nested'))
    # constants of equal value and different type side by side (1 = 1.00 = TRUE in Python): each keeps its own type
    from decimal import Decimal as _D
    for text in ('SELECT 1 AS a, 1.00 AS b, TRUE AS c FROM #v', 'SELECT 1.0 AS b, 1 AS a FROM #v', 'SELECT TRUE AS c, 1 AS a, 1.0 AS b FROM #v',
                 'SELECT 0 AS n, FALSE AS f, 0.0 AS z FROM #v', 'SELECT FALSE AS f, 0 AS n FROM #v', 'SELECT 0.00 AS z, 0 AS n, FALSE AS f FROM #v',
                 'SELECT 2 / 2 AS q, 1 AS a, TRUE AS t FROM #v', 'SELECT 1 AS a, 2 / 2 AS q FROM #v', 'SELECT c_int AS x, 1 AS a, 1.00 AS b FROM #v',
                 'SELECT 2 AS a, 2.00 AS b, 1 + 1 AS c, 1.0 + 1 AS e FROM #v', 'SELECT a, b, c FROM (SELECT 1 AS a, 1.0 AS b, TRUE AS c FROM #v)',
                 'SELECT b, a FROM (SELECT 1 AS a, 1.0 AS b FROM #v) WHERE a = b', 'SELECT 1 AS a, 1.00 AS b, count(*) AS n FROM #v GROUP BY 1, 2',
                 'SELECT 1.00 AS b, 1 AS a, TRUE AS c, count(*) AS n FROM #v', 'SELECT DISTINCT 1 AS a, 1.0 AS b FROM #v',
                 'SELECT 1 AS a, 1.0 AS b FROM #v ORDER BY 2, 1', 'SELECT 1, 1.0, TRUE', 'SELECT 0.0, 0, FALSE'):
        stmts.append((text, None, 'constants/equal-valued'))
    # un-aliased literals as targets, the empty string among them
    for text in ("SELECT '', 2", "SELECT '', c_date, c_decimal FROM #v", 'SELECT c_str, "", sum(c_int) FROM #v GROUP BY 1, 2', "SELECT x FROM (SELECT '', c_int AS x FROM #v)",
                 "SELECT 'a', '', ' ', c_int FROM #v", 'SELECT "", \'\', c_bool FROM #v', "SELECT DISTINCT '', c_bool FROM #v", "SELECT '', count(*) FROM #v"):
        stmts.append((text, None, 'constants/empty-string-target'))
    for params in ((2, _D('2.00')), (_D('2.00'), 2), (True, 1), (1, True), (0, False, _D('0')), (_D('1'), True, 1)):
        cols = ', '.join(f'%s AS p{i}' for i in range(len(params)))
        stmts.append((f'SELECT {cols} FROM #v', params, 'constants/equal-valued-params'))
        stmts.append((f'SELECT {cols}', params, 'constants/equal-valued-params'))
    # wide grouped statements: grouping keys of different datatypes anywhere among 9 to 14 targets
    wrng = ctx.rng('wide-grouping')
    agg_pool = ['count(*)', 'min(c_int)', 'max(d_int)', 'sum(c_int)', 'count(c_str)', 'first(c_str)', 'last(c_date)', 'min(c_date)', 'max(c_decimal)',
                'sum(d_decimal)', 'first(c_bool)', 'count(d_date)', 'last(d_str)', 'min(c_str)']
    key_pool = ['c_str', 'c_int', 'c_date', 'c_bool', 'c_decimal', 'd_str', 'd_int']
    for w in range(ctx.pick(24, 120)):
        nk = wrng.choice([2, 2, 3, 4])
        keys = wrng.sample(key_pool, nk)
        aggs = wrng.sample(agg_pool, wrng.randint(9 - nk, 14 - nk))
        targets = [(a, f'a{i}') for i, a in enumerate(aggs)]
        # at least one key at position 9 or later (1-based), the others anywhere
        for j, k in enumerate(keys):
            pos = len(targets) if j == 0 else wrng.randint(0, len(targets))
            targets.insert(pos, (k, f'g{j}'))
        by = [wrng.choice([f'g{j}', str([t[1] for t in targets].index(f'g{j}') + 1)]) for j in range(nk)]
        wrng.shuffle(by)
        stmts.append((f'SELECT {", ".join(f"{e} AS {n}" for e, n in targets)} FROM #v GROUP BY {", ".join(by)}', None, 'grouping/wide'))
    stmts.append(('SELECT NULL AS r FROM #v', None, 'null'))
    stmts.append(('SELECT %s AS r FROM #v', (None,), 'param/none'))
    stmts.append(('SELECT coalesce(NULL, NULL) AS r FROM #v', None, 'coalesce/null'))
    stmts.append(('SELECT c_dict["a"] AS r, c_dict["nope"] AS q FROM #v', None, 'subscript'))
    # registry forms with one operand replaced by NULL / a None placeholder
    for label, tmpl, combo, is_agg in cases:
        if tmpl is None or not combo:
            continue
        for pos in range(len(combo)):
            ops = [(f'c_{t}' if i % 2 == 0 else f'd_{t}') for i, t in enumerate(combo)]
            ops[pos] = 'NULL'
            stmts.append((f'SELECT {tmpl.format(*ops)} AS r FROM #v', None, 'registry/null-operand'))
            if len(combo) > 1:
                ops[pos] = '%s'
                stmts.append((f'SELECT {tmpl.format(*ops)} AS r FROM #v', (None,), 'registry/none-param-operand'))
    for idx, (text, params, label) in enumerate(stmts):
        if not ctx.mine(idx):
            continue
        if ctx.out_of_time():
            break
        vt, rows = tabs[idx % len(tabs)]
        conn.tables['v'] = vt
        case = {'statement': text, 'params': repr(params), 'form': label, 'hashable_values': True}
        res = execute(ctx, conn, text, mon, case, params=params)
        ctx.count(f'special.{label}.' + ('accepted' if res is not None else 'rejected_or_excluded'))
        if res is None:
            ctx.case((text, repr(params)), False)
            continue
        nonnull = check_result(ctx, text + (f'  % {params!r}' if params is not None else ''), res[0], res[1], mon, case)
        ctx.case((text, repr(params), idx % len(tabs)), nonnull > 0)
        ctx.count('obs.special_form_cells', sum(len(r) for r in res[1]))
        # the same column seen through a sub-query keeps its announced datatype
        if idx % 5 == 0 and params is None:
            inner = text
            outer = f'SELECT r FROM ({inner})'
            res2 = execute(ctx, conn, outer, mon, {'statement': outer, 'form': label + '/nested', 'hashable_values': True})
            if res2 is not None:
                check_result(ctx, outer, res2[0], res2[1], mon, case)
                if res2[0][0].datatype is not res[0][0].datatype:
                    ctx.violation('c04.subquery_changes_datatype', f'{outer}: announced {res2[0][0].datatype} but the inner statement announces {res[0][0].datatype}', case)


def failed_execution_part(ctx, mon):
    """A cursor re-used after a refused or failed execution: the cells it still delivers conform to the datatypes it announces."""
    from .. import failpaths
    rng = ctx.rng('failpaths')
    for label, first, names, fetched, text, kind, desc, cur, raised, nrows in failpaths.scenarios(rng, ctx.pick(20, 200)):
        case = {'statement_sequence': label, 'hashable_values': True}
        ctx.count(f'obs.failed_executions.{kind}')
        if raised is None:
            continue
        rest = cur.fetchall()
        ctx.case(('failpath', label), bool(rest))
        if desc is None:
            if rest:
                ctx.violation('c04.rows_without_description', f'after {text!r} failed the cursor delivers rows but has no description', case)
            continue
        mon.reset()
        check_result(ctx, label, desc, rest, mon, case)


def struct_chains(dtype, depth):
    """Attribute chains on a structured datatype: yields ('.a.b', dtype)."""
    from beanquery import types as bqtypes
    st = bqtypes.ALIASES.get(dtype, dtype)
    if not (isinstance(st, type) and issubclass(st, bqtypes.Structure)) or depth == 0:
        return
    for name, getter in st.columns.items():
        yield '.' + name, getter.dtype
        for rest, dt in struct_chains(getter.dtype, depth - 1):
            yield '.' + name + rest, dt


def ledger_columns(ctx, mon):
    """Every column of every ledger table; structured attribute chains; clause coverage per column."""
    rng = ctx.rng('ledgers')
    nled = ctx.pick(3, 40)
    jobs = []
    for li in range(nled):
        led = ledgers.gen_ledger(rng, ntxn=rng.randint(5, ctx.pick(15, 40)))
        jobs.append(led)
    idx = 0
    for li, led in enumerate(jobs):
        loaded = led.loaded
        if li % 2 == 1:
            # directives built in Python (as plug-ins do): postings and directives without metadata, costs without dates
            from .c11 import constructed_entries
            loaded = (constructed_entries(rng, loaded[0]), loaded[1], loaded[2])
        conn = engine.connection(ledger=loaded)
        for tname_, table in sorted(conn.tables.items()):
            if not tname_:
                continue
            for cname, col in table.columns.items():
                idx += 1
                if not ctx.mine(idx):
                    continue
                if ctx.out_of_time():
                    return
                stmts = [f'SELECT {cname} FROM #{tname_}',
                         f'SELECT DISTINCT {cname} FROM #{tname_}',
                         f'SELECT {cname}, count(*) AS n FROM #{tname_} GROUP BY {cname}',
                         f'SELECT {cname} FROM #{tname_} ORDER BY {cname} DESC',
                         f'SELECT count({cname}) AS c, first({cname}) AS f, last({cname}) AS l, min({cname}) AS mn, max({cname}) AS mx FROM #{tname_}',
                         f'SELECT str({cname}) AS s, {cname} IS NULL AS z, bool({cname}) AS b, repr({cname}) AS r FROM #{tname_}']
                for chain, dt in struct_chains(col.dtype, 3):
                    stmts.append(f'SELECT {cname}{chain} FROM #{tname_}')
                    ctx.seen('attribute_chains', f'{tname_}.{cname}{chain}')
                if isinstance(col.dtype, type) and issubclass(col.dtype, dict):
                    for key in ('note', 'ref', 'when', 'ok', 'amt', 'filename', 'lineno', 'missing', 'name'):
                        stmts.append(f'SELECT {cname}["{key}"] FROM #{tname_}')
                scalar = isinstance(col.dtype, type) and issubclass(col.dtype, (int, Decimal, str, datetime.date))
                for text in stmts:
                    case = {'statement': text, 'ledger': led.text if len(led.text) < 6000 else led.text[:6000] + '...',
                            'orderable': scalar, 'hashable_values': scalar}
                    res = execute(ctx, conn, text, mon, case)
                    ctx.seen('ledger_columns', f'{tname_}.{cname}')
                    if res is None:
                        ctx.case((text, li), False)
                        continue
                    nonnull = check_result(ctx, text, res[0], res[1], mon, case)
                    ctx.case((text, li, ctx.shard), nonnull > 0)
                    ctx.count('obs.ledger_statements')
                    ctx.count('obs.cells_checked', sum(len(r) for r in res[1]))


PIVOTS = [
    'SELECT sum(number) AS total, account, year GROUP BY 2, 3 PIVOT BY 2, 3',
    'SELECT year, sum(number) AS total, account GROUP BY 1, 3 PIVOT BY 3, 1',
    'SELECT account, year, sum(position) AS s, count(*) AS n GROUP BY 1, 2 PIVOT BY 1, 2',
    'SELECT count(*) AS n, currency, max(date) AS last, flag, sum(cost(position)) AS c GROUP BY currency, flag PIVOT BY flag, currency',
    'SELECT first(narration) AS f, month, min(number) AS mn, year GROUP BY month, year PIVOT BY year, month',
    'SELECT account, sum(number) AS s, year(date) AS y, last(payee) AS p GROUP BY 1, 3 PIVOT BY y, account',
]


def pivot_statements(ctx, mon):
    """PIVOT BY with the pivot columns at any target positions and remaining columns of different datatypes."""
    rng = ctx.rng('pivot')
    for i in range(ctx.pick(2, 20)):
        led = ledgers.gen_ledger(rng, ntxn=10)
        conn = engine.connection(ledger=led.loaded)
        for text in PIVOTS:
            case = {'statement': text, 'ledger': led.text}
            res = execute(ctx, conn, text, mon, case)
            ctx.case(('pivot', text, i), True)
            ctx.count('obs.pivot_statements')
            if res is not None:
                check_result(ctx, text, res[0], res[1], mon, case, prefix='c04.pivot')


def testsuite_under_monitors(ctx):
    """The repository's own test-suite as a workload: run it under the M2/M3/M4 monitors (pytest plug-in); the test
    outcomes are ignored, the monitors' observations count."""
    import json
    import os
    import subprocess
    import sys
    import tempfile
    import beanquery
    root = os.path.dirname(os.path.dirname(os.path.abspath(beanquery.__file__)))
    verif = os.path.dirname(os.path.dirname(os.path.dirname(os.path.abspath(__file__))))
    fd, report = tempfile.mkstemp(prefix='bqv-pytest-', suffix='.json')
    os.close(fd)
    env = dict(os.environ)
    env['PYTHONPATH'] = os.pathsep.join([root, verif, os.path.join(verif, '.deps')])
    env['BQVERIF_PYTEST_REPORT'] = report
    try:
        subprocess.run([sys.executable, '-m', 'pytest', '-q', '--no-header', '-p', 'no:cacheprovider', '-p', 'bqverif.pytest_monitors',
                        os.path.join(root, 'beanquery')], cwd=root, env=env, capture_output=True, text=True, timeout=900)
        with open(report) as f:
            rep = json.load(f)
    except Exception as exc:  # noqa: BLE001
        ctx.notes.append(f'test-suite workload did not run: {exc!r}')
        return
    finally:
        try:
            os.unlink(report)
        except OSError:
            pass
    ctx.count('obs.testsuite_tests_run_under_monitors', rep.get('tests', 0))
    ctx.count('obs.testsuite_node_evaluations', rep.get('node_evaluations', 0))
    ctx.case(('testsuite', rep.get('tests', 0)), False, n=rep.get('tests', 0))
    for v in rep.get('violations', [])[:5]:
        ctx.violation(f"c04.testsuite.{v['kind']}", f"while running {v['test']}: {v['detail']}", {'test': v['test']})


def subquery_histories(ctx, mon):
    """Histories of statements over sub-queries on one connection: the names and datatypes a sub-query exposes belong to that
    statement only. A later statement that uses a name some EARLIER sub-query defined must either be rejected or be type-sound."""
    rng = ctx.rng('subq-hist')
    led = ledgers.gen_ledger(rng, ntxn=6)
    conn = engine.connection(ledger=led.loaded)
    vt, rows = typed_table(rng, nrows=10)
    conn.tables['v'] = vt
    types = ['str', 'int', 'decimal', 'date', 'bool', 'amount', 'inventory', 'set']
    beanquery = engine.bq()
    for n in range(ctx.pick(40, 600)):
        if ctx.out_of_time():
            return
        ta, tb, tc = rng.choice(types), rng.choice(types), rng.choice(types)
        name = rng.choice(['x', 'y', 'n', 'val'])
        other = 'q' + name
        first = f'SELECT {name}, zz FROM (SELECT c_{ta} AS {name}, c_{tc} AS zz FROM #v)'
        stale = rng.choice([
            f'SELECT {name} FROM (SELECT c_{tb} AS {other} FROM #v)',
            f'SELECT zz, {other} FROM (SELECT c_{tb} AS {other} FROM #v)',
            f'SELECT * FROM (SELECT d_{tb} AS {other} FROM #v)',
            f'SELECT {name} FROM #',
            f'SELECT {other} FROM (SELECT c_{tb} AS {other}, c_{ta} AS second FROM #v) WHERE {name} IS NOT NULL',
        ])
        for text, must_have in ((first, None), (stale, None)):
            case = {'statement': text, 'history': [first, stale]}
            res = execute(ctx, conn, text, mon, case, prefix='c04.subquery_history')
            ctx.case(('subq-hist', text, n), True)
            ctx.count('obs.subquery_history_statements')
            if res is not None:
                check_result(ctx, text, res[0], res[1], mon, case, prefix='c04.subquery_history')
                if text is stale and text.startswith('SELECT *'):
                    names = [d.name for d in res[0]]
                    if names != [other]:
                        ctx.violation('c04.subquery_history.wildcard_columns', f'{text} after {first}: columns {names}, the sub-query exposes [{other!r}]', case)


def replay(ctx, case):
    mon = monitors.install()
    print('replay: statement', case and case.get('statement'))


def finalize(merged):
    reasons = []
    c = merged['counters']
    ex = merged['sets'].get('overloads_exercised', set())
    nc = merged['sets'].get('overloads_not_constructible', set())
    merged['extra']['overload_instantiations_exercised'] = len(ex)
    merged['extra']['overloads_not_constructible'] = sorted(nc)
    if len(ex) + len(nc) < c.get('registry.instantiations', 1):
        reasons.append(f"registry sweep incomplete: {len(ex) + len(nc)}/{c.get('registry.instantiations')}")
    if c.get('obs.failed_executions.failing', 0) == 0:
        reasons.append('no failed execution on a re-used cursor observed')
    if c.get('obs.special_form_cells', 0) == 0:
        reasons.append('special forms part observed no cell')
    if c.get('obs.node_evaluations', 0) == 0:
        reasons.append('node evaluation hook never fired')
    if c.get('obs.testsuite_node_evaluations', 0) == 0:
        reasons.append('the test-suite workload observed no node evaluation')
    if c.get('obs.pivot_statements', 0) == 0:
        reasons.append('no PIVOT BY statement executed')
    if c.get('obs.subquery_history_statements', 0) == 0:
        reasons.append('no sub-query history executed')
    if c.get('obs.ledger_statements', 0) == 0:
        reasons.append('no ledger column statement executed')
    return reasons

"""C15 — PIVOT BY is a lossless reshaping of a two-key aggregate result.

Oracles: the R2 pivot model on harness tables (names, datatypes, rows), and the
un-pivot relation between two recorded executions (the statement with and without
PIVOT BY): un-pivoting the pivoted result reproduces the un-pivoted result sorted
by the two keys.
"""
from decimal import InvalidOperation

from .. import engine, gen, ir, ledgers, model, monitors
from ..ir import T_INT, T_DEC, T_STR, T_DATE, T_BOOL
from ..values import same_rows, first_row_diff, show, show_rows, same

ID = 'C15'
LEVEL = 'exploration'
RULE = ('Random aggregate queries grouped by exactly two key columns (types int, str, date, decimal, bool; 1-6 distinct values '
        'each; sparse combinations; NULL key values) placed at any two target positions, with 1-3 remaining aggregate columns, '
        'GROUP BY and PIVOT BY each given by names or by positions; also on the postings table (account/year/currency x '
        'sum(position)). Compared with the pivot model and un-pivoted. Invalid references (same column twice, second not grouped, '
        'out of range, hidden, unknown name, non-aggregate query) must be rejected. Distinct by (statement, table digest); '
        'non-trivial when both keys have >= 2 distinct values.')
ASSUMPTIONS = ['NULL key values sort before every value, as under ORDER BY', 'key values are rendered into column names with str()']
_LIT = ir.Style()
_LIT.param_style = 'literal'
KEYCOLS = [('i', T_INT), ('j', T_INT), ('s', T_STR), ('t', T_STR), ('dt', T_DATE), ('d', T_DEC), ('b', T_BOOL)]


def gen_query(rng):
    (c1, t1), (c2, t2) = rng.sample(KEYCOLS, 2)
    k1 = ir.Target(ir.col(c1, t1), 'p' if rng.random() < 0.4 else None)
    k2 = ir.Target(ir.col(c2, t2), 'q' if rng.random() < 0.4 else None)
    qg = gen.QueryGen(rng, max_depth=2, obj_keys=False)
    aggs = []
    for i in range(rng.randint(1, 3)):
        aggs.append(ir.Target(qg.agg_call(), f'a{i}'))
    targets = [k1, k2] + aggs
    rng.shuffle(targets)
    i1, i2 = targets.index(k1), targets.index(k2)
    n1, n2 = ir.target_name(k1), ir.target_name(k2)
    by_name = rng.random() < 0.5
    group_by = [ir.Key('index', i1 + 1), ir.Key('index', i2 + 1)] if rng.random() < 0.5 else [ir.Key('name', n1), ir.Key('name', n2)]
    if rng.random() < 0.3:
        group_by.reverse()
    pivot = [ir.Key('name', n1), ir.Key('name', n2)] if by_name else [ir.Key('index', i1 + 1), ir.Key('index', i2 + 1)]
    if rng.random() < 0.2:
        pivot = [pivot[0], ir.Key('index', i2 + 1)]
    q = ir.Query(targets=targets, table='t', group_by=group_by, pivot_by=pivot, where=qg.where(0.3))
    if rng.random() < 0.4:
        # ORDER BY in front of the pivot: any keys, the first pivot column possibly as a secondary key
        names = [ir.target_name(t) for t in targets]
        order = []
        cand = [i for i, t in enumerate(targets) if t.expr.type in gen.ORDERABLE]
        for i in rng.sample(cand, min(len(cand), rng.randint(1, 3))):
            order.append(ir.Key('index', i + 1, rng.choice([None, False, True])))
        q.order_by = order or None
    return q, i1, i2


def unpivot(names, rows, n1, n2, other_names):
    """Rebuild (k1, k2, others...) rows from a pivoted result; blocks that are entirely NULL are absent rows."""
    nother = len(other_names)
    out = []
    nblocks = (len(names) - 1) // nother if nother else 0
    return nblocks


def run_case(ctx, n, mon):
    rng = ctx.rng('case', n)
    mt = gen.gen_table(rng, 't', max_rows=ctx.pick(14, 40), ties=rng.random() < 0.7)
    q, i1, i2 = gen_query(rng)
    tables = {'t': mt}
    conn = engine.connection([mt])
    route = 'text' if rng.random() < 0.15 else 'ast'
    text = ir.to_text(q, _LIT)
    case = {'replay': ['case', n], 'statement': text, 'route': route, 'columns': mt.columns, 'rows': show_rows(mt.rows, 50)}
    plain = ir.Query(targets=q.targets, table='t', group_by=q.group_by, where=q.where, order_by=q.order_by)
    if q.order_by:
        ctx.count('obs.pivot_with_order_by')
    try:
        pnames, ptypes, prows = engine.run(conn, ir.to_text(q) if route == 'text' else ir.to_ast(q))
        unames, utypes, urows = engine.run(conn, ir.to_ast(plain))
    except (InvalidOperation, OverflowError):
        ctx.count('excluded.definition_raises')
        return
    except Exception as exc:  # noqa: BLE001
        ctx.case((text, gen.table_digest(mt)), True)
        ctx.violation(f'c15.pivot_raised.{monitors.classify_exception(exc)}', f'{text}: {type(exc).__name__}: {exc}', case)
        return
    try:
        mnames, mtypes, mrows = model.run_query(q, tables)
    except (model.ModelError, InvalidOperation, OverflowError):
        ctx.count('skipped.model_domain')
        return
    d1 = {r[i1] for r in urows}
    d2 = {r[i2] for r in urows}
    ctx.case((text, gen.table_digest(mt), route), len(d1) >= 2 and len(d2) >= 2)
    ctx.count('obs.cases')
    ctx.count('obs.null_key_cases', 1 if (None in d1 or None in d2) else 0)
    ctx.count('obs.sparse_cases', 1 if len(urows) < len(d1) * len(d2) else 0)
    ctx.count(f'obs.remaining_columns.{len(q.targets) - 2}')
    ctx.count('obs.pivot_by_name' if q.pivot_by[0].kind == 'name' else 'obs.pivot_by_position')
    if len(ctx.samples) < 3 and len(d1) >= 2 and len(d2) >= 2:
        ctx.sample({'statement': text, 'unpivoted': show_rows(urows, 4), 'pivoted_names': pnames, 'pivoted': show_rows(prows, 3)})
    if pnames != mnames:
        ctx.violation('c15.column_names', f'{text}: columns {pnames} expected {mnames}', case)
        return
    if not engine.types_match(mtypes, ptypes):
        ctx.violation('c15.column_types', f'{text}: datatypes {[getattr(t, "__name__", t) for t in ptypes]} expected {mtypes}', case)
        return
    if not same_rows(prows, mrows):
        d = first_row_diff(prows, mrows)
        ctx.violation('c15.pivoted_rows', f'{text}: row {d[0]} engine={show(d[1])} model={show(d[2])}', case,
                      {'unpivoted': show_rows(urows, 40), 'engine': show_rows(prows, 20), 'model': show_rows(mrows, 20)})
        return
    # un-pivot the engine's pivoted result and compare with the engine's un-pivoted result sorted by the two keys
    others = [i for i in range(len(q.targets)) if i not in (i1, i2)]
    nother = len(others)
    keys2 = sorted(d2, key=lambda v: (v is not None, v))
    rebuilt = []
    for r in prows:
        for b, k2 in enumerate(keys2):
            block = r[1 + b * nother: 1 + (b + 1) * nother]
            row = [None] * len(q.targets)
            row[i1], row[i2] = r[0], k2
            for o, v in zip(others, block):
                row[o] = v
            rebuilt.append(tuple(row))
    present = {(r[i1], r[i2]) for r in urows}
    rebuilt_present = [r for r in rebuilt if (r[i1], r[i2]) in present]
    absent_blocks = [r for r in rebuilt if (r[i1], r[i2]) not in present]
    exp = sorted(urows, key=lambda r: ((r[i1] is not None, r[i1]), (r[i2] is not None, r[i2])))
    ctx.count('obs.unpivot_checks')
    def loose_keys(rows_):
        # key values equal in value but not in representation (1.0 / 1.00) denote the same group
        return [tuple((('key', float(v)) if (i in (i1, i2) and hasattr(v, 'as_tuple')) else v) for i, v in enumerate(r)) for r in rows_]
    if not same_rows(loose_keys(rebuilt_present), loose_keys([tuple(r) for r in exp])):
        ctx.violation('c15.unpivot_mismatch', f'{text}: un-pivoting the pivoted result does not reproduce the un-pivoted result', case)
        return
    for r in absent_blocks:
        if any(r[o] is not None for o in others):
            ctx.violation('c15.block_not_null', f'{text}: block for the absent combination {(r[i1], r[i2])} is not all NULL: {show(r)}', case)
            return


INVALID = [
    'SELECT i, s, count(*) AS n FROM #t GROUP BY 1, 2 PIVOT BY 1, 1',
    'SELECT i, s, count(*) AS n FROM #t GROUP BY 1, 2 PIVOT BY s, s',
    'SELECT i, s, count(*) AS n FROM #t GROUP BY 1, 2 PIVOT BY 1, 3',
    'SELECT i, s, count(*) AS n FROM #t GROUP BY 1, 2 PIVOT BY 1, n',
    'SELECT i, s, count(*) AS n FROM #t GROUP BY 1, 2 PIVOT BY 0, 2',
    'SELECT i, s, count(*) AS n FROM #t GROUP BY 1, 2 PIVOT BY 1, 4',
    'SELECT i, s, count(*) AS n FROM #t GROUP BY 1, 2 PIVOT BY 1, nosuch',
    'SELECT i, count(*) AS n FROM #t GROUP BY i, s PIVOT BY 1, 3',
    'SELECT i, s, j FROM #t PIVOT BY 1, 2',
    'SELECT i, s FROM #t PIVOT BY i, s',
]


def run(ctx):
    mon = monitors.install()
    for n in range(ctx.pick(250, 6000)):
        if ctx.out_of_time():
            break
        run_case(ctx, n, mon)
    beanquery = engine.bq()
    rng = ctx.rng('invalid')
    mt = gen.gen_table(rng, 't', max_rows=8, ties=True)
    conn = engine.connection([mt])
    # the same target designated twice in different forms (position, column name, alias), and valid mixed forms
    invalid = list(INVALID)
    valid = []
    for sel, refs in (('SELECT i, s, count(*) AS n', (['1', 'i'], ['2', 's'])), ('SELECT i AS a, s AS b, count(*) AS n', (['1', 'a'], ['2', 'b'])),
                      ('SELECT count(*) AS n, s AS b, i AS a', (['3', 'a'], ['2', 'b']))):
        gb = f'GROUP BY {refs[0][0]}, {refs[1][0]}'
        for t1 in (0, 1):
            for t2 in (0, 1):
                for r1 in refs[t1]:
                    for r2 in refs[t2]:
                        (invalid if t1 == t2 else valid).append(f'{sel} FROM #t {gb} PIVOT BY {r1}, {r2}')
    for text in valid:
        try:
            conn.execute(text).fetchall()
            ctx.count('obs.valid_mixed_references_accepted')
        except Exception as exc:  # noqa: BLE001
            ctx.violation('c15.valid_reference_rejected', f'{text}: {exc!r}', {'statement': text})
    for text in invalid:
        try:
            conn.execute(text)
            ctx.violation('c15.invalid_reference_accepted', f'{text}: accepted', {'statement': text})
        except beanquery.CompilationError:
            ctx.count('obs.invalid_references_rejected')
        except Exception as exc:  # noqa: BLE001
            ctx.violation(f'c15.invalid_reference_wrong_exception.{type(exc).__name__}', f'{text}: {exc!r}', {'statement': text})
    # an untyped first pivot column holding equal numbers of different types (1 beside 1.0, TRUE beside 1): one row per VALUE
    from decimal import Decimal as D_
    from ..model import ModelTable
    for i in range(ctx.pick(6, 60)):
        mrng = ctx.rng('mixed-types', i)
        pool = [1, D_('1'), D_('1.0'), 2, D_('2'), 3, D_('3.5'), 4, D_('4.00'), 5, True, 0, D_('0'), False, None]
        rows = [(mrng.choice(pool), mrng.choice(['a', 'b', 'c', '']), mrng.randint(1, 9)) for _ in range(mrng.randint(5, 14))]
        mconn = engine.connection()
        mconn.tables['m'] = engine.harness_table(ModelTable('m', [('n', object), ('k', str), ('v', int)], rows))
        text = 'SELECT n, k, sum(v) AS s FROM #m GROUP BY n, k PIVOT BY n, k'
        case = {'statement': text, 'rows': show_rows(rows, 20)}
        try:
            pn, pt, pr = engine.run(mconn, text)
            un, ut, ur = engine.run(mconn, 'SELECT n, k, sum(v) AS s FROM #m GROUP BY n, k')
        except Exception as exc:  # noqa: BLE001
            ctx.violation('c15.pivot_raised.mixed_types', f'{text}: {exc!r}', case)
            continue
        keys2 = sorted({r[1] for r in ur})
        cells = {}
        for r in ur:
            cells[(r[0], r[1])] = r[2]                      # (1, 'a') and (Decimal('1'), 'a') are one key
        firsts = []
        for r in ur:
            if not any(r[0] == f and (r[0] is None) == (f is None) for f in firsts):
                firsts.append(r[0])
        firsts.sort(key=lambda v: (v is not None, v if v is not None else 0))
        exp_rows = [tuple([f] + [cells.get((f, k)) for k in keys2]) for f in firsts]
        ctx.case((text, repr(rows)), len(firsts) >= 2)
        ctx.count('obs.mixed_type_pivot_cases')
        got = [tuple(r) for r in pr]
        if pn != ['n/k'] + [str(k) for k in keys2] or len(got) != len(exp_rows) or any(g != e for g, e in zip(got, exp_rows)):
            ctx.violation('c15.mixed_type_first_column', f'{text}: pivoted rows {show_rows(got, 8)} under {pn}; the un-pivoted result reshapes to {show_rows(exp_rows, 8)}', case)
    # ledger: account x year x currency
    for i in range(ctx.pick(2, 20)):
        led = ledgers.gen_ledger(ctx.rng('ledger', i), ntxn=12)
        lconn = engine.connection(ledger=led.loaded)
        for k1, k2 in (('account', 'year'), ('year', 'currency'), ('currency', 'account')):
            text = f'SELECT {k1}, {k2}, sum(position) AS s, count(*) AS n GROUP BY {k1}, {k2} PIVOT BY {k1}, {k2}'
            try:
                pn, pt, pr = engine.run(lconn, text)
                un, ut, ur = engine.run(lconn, f'SELECT {k1}, {k2}, sum(position) AS s, count(*) AS n GROUP BY {k1}, {k2}')
            except Exception as exc:  # noqa: BLE001
                ctx.violation('c15.pivot_raised.ledger', f'{text}: {exc!r}', {'statement': text, 'ledger': led.text})
                continue
            keys2 = sorted({r[1] for r in ur})
            exp_names = [f'{k1}/{k2}'] + [f'{k}/{c}' for k in keys2 for c in ('s', 'n')]
            ctx.case((text, i, ctx.shard), len(keys2) >= 2)
            ctx.count('obs.ledger_cases')
            cells = {(r[0], r[1]): (r[2], r[3]) for r in ur}
            exp_rows = []
            for a in sorted({r[0] for r in ur}):
                row = [a]
                for k in keys2:
                    row.extend(cells.get((a, k), (None, None)))
                exp_rows.append(tuple(row))
            if pn != exp_names or [tuple(r) for r in pr] != exp_rows:
                ctx.violation('c15.ledger_pivot_mismatch', f'{text}: pivoted result differs from the reshaped un-pivoted result', {'statement': text, 'ledger': led.text})


def replay(ctx, case):
    run_case(ctx, case['replay'][1], monitors.install())


def finalize(merged):
    c = merged['counters']
    reasons = []
    for k in ('obs.cases', 'obs.pivot_with_order_by', 'obs.null_key_cases', 'obs.sparse_cases', 'obs.remaining_columns.1', 'obs.remaining_columns.3', 'obs.pivot_by_name',
              'obs.pivot_by_position', 'obs.unpivot_checks', 'obs.invalid_references_rejected', 'obs.ledger_cases'):
        if c.get(k, 0) == 0:
            reasons.append(f'{k} == 0')
    return reasons

"""C11 — ledger tables present the Beancount directives faithfully and completely.

Oracle: an independent traversal of the loaded directives; every cell of
`SELECT <every column> FROM #<table>` is compared with the attribute the property
names. Metadata / account / commodity look-up functions are compared with plain
dictionary look-ups.
"""
import datetime
from decimal import Decimal

from .. import engine, ledgers
from ..values import same, show, show_rows

ID = 'C11'
LEVEL = 'exploration'
RULE = ('Generated ledgers (text route through the loader: 5 root types, deep accounts, several currencies, lots at cost with '
        'dates and labels, sales, @ and @@ prices, price directives, pad + balance, notes, events, documents, commodities and '
        'opens with metadata of every value type, tags, links, closed accounts) plus directly constructed directives (postings '
        'without metadata, one-posting and six-posting transactions, duplicate opens). For every table every column of every row '
        'is compared with an independent traversal of the directives; the metadata/open/commodity functions are evaluated for '
        'present and missing keys. Distinct by (ledger digest, table); non-trivial when the table has >= 2 rows.')
ASSUMPTIONS = [
    'collections (tags, links, other_accounts) are compared as sets',
    'cost_label of a posting without cost may be NULL or the empty string (the statement does not fix it)',
    'beancount.core.compare.hash_entry is the definition of a directive id',
]

META_KEYS = ['note', 'ref', 'when', 'ok', 'amt', 'acct', 'cur', 'num', 'tag', 'missing', 'filename', 'lineno', 'name', 'asset-class', 'weight', 'quote']

_parsed = {}


def parsed(text):
    if text not in _parsed:
        from beanquery import parser
        _parsed[text] = parser.parse(text)
    return _parsed[text]


def eq_cell(got, exp, kind='exact'):
    if kind == 'set':
        if got is None or exp is None:
            return got is None and exp is None
        return set(got) == set(exp)
    if kind == 'label':
        return got == exp or (exp is None and got in (None, ''))
    if kind == 'is':
        return got is exp or got == exp
    return same(got, exp) if not isinstance(exp, tuple) else got == exp


def weight_of(p):
    from beancount.core.amount import Amount
    if p.cost is not None and isinstance(p.cost.number, Decimal):
        return Amount(p.cost.number * p.units.number, p.cost.currency)
    if p.price is not None:
        return Amount(p.price.number * p.units.number, p.price.currency)
    return p.units


def txn_cols(e, is_txn):
    return {
        'flag': e.flag if is_txn else None,
        'payee': e.payee if is_txn else None,
        'narration': e.narration if is_txn else None,
        'description': (' | '.join(x for x in (e.payee, e.narration) if x)) if is_txn else None,
        'tags': e.tags if is_txn else None,
        'links': e.links if is_txn else None,
    }


def expected_postings(entries):
    from beancount.core import data
    from beancount.core.compare import hash_entry
    from beancount.core.position import Position
    rows = []
    for e in entries:
        if not isinstance(e, data.Transaction):
            continue
        for p in e.postings:
            m = p.meta
            row = {
                'id': hash_entry(e), 'type': 'transaction', 'date': e.date, 'year': e.date.year, 'month': e.date.month, 'day': e.date.day,
                'filename': m['filename'] if m is not None else None,
                'lineno': m['lineno'] if m is not None else None,
                'location': f"{m['filename']}:{m['lineno']}:" if m is not None else None,
                'posting_flag': p.flag, 'account': p.account,
                'other_accounts': {q.account for q in e.postings if q is not p},
                'number': p.units.number, 'currency': p.units.currency,
                'cost_number': p.cost.number if p.cost else None, 'cost_currency': p.cost.currency if p.cost else None,
                'cost_date': p.cost.date if p.cost else None, 'cost_label': p.cost.label if p.cost else None,
                'position': Position(p.units, p.cost), 'price': p.price, 'weight': weight_of(p),
                'meta': m, 'entry': e,
            }
            row.update(txn_cols(e, True))
            rows.append((row, e, p))
    return rows


KINDS = {'tags': 'set', 'links': 'set', 'other_accounts': 'set', 'cost_label': 'label', 'meta': 'is', 'entry': 'is'}


def check_table(ctx, conn, table, columns, exp_rows, case, li):
    """SELECT all listed columns; compare with exp_rows (list of dicts)."""
    text = 'SELECT ' + ', '.join(columns) + f' FROM #{table}'
    try:
        cur = conn.execute(parsed(text))
        rows = cur.fetchall()
    except Exception as exc:  # noqa: BLE001
        ctx.violation(f'c11.query_failed.{table}', f'{text}: {type(exc).__name__}: {exc}', case)
        return
    ctx.case((table, li, ctx.shard, case.get('replay')), len(exp_rows) >= 2)
    ctx.count(f'obs.rows.{table}', len(rows))
    if len(rows) != len(exp_rows):
        ctx.violation(f'c11.row_count.{table}', f'#{table}: {len(rows)} rows, the ledger holds {len(exp_rows)}', case)
        return
    for n, (r, exp) in enumerate(zip(rows, exp_rows)):
        for c, got in zip(columns, r):
            e = exp[c]
            ctx.count('obs.cells_compared')
            ctx.seen('columns_nonnull' if e is not None else 'columns_null', f'{table}.{c}')
            if not eq_cell(got, e, KINDS.get(c, 'exact')):
                ctx.violation(f'c11.cell.{table}.{c}', f'#{table} row {n} column {c}: engine {show(got)!r} directive {show(e)!r}', case)
                return


READS = [
    'SELECT open_date(parent(account)) AS a, close_date(root(account, 1)) AS b, open_meta(leaf(account), "note") AS c, open_meta(parent(account)) AS d',
    'SELECT open_date(account) AS a, close_date(account) AS b WHERE open_date(root(account, 2)) IS NULL',
    'SELECT currency_meta(account, "name") AS a, commodity_meta(leaf(account)) AS b, currency_meta("NOPE") AS c, getprice("NOPE", "USD") AS d, getprice(currency, "NOPE") AS e',
    'SELECT account, convert(position, "NOPE") AS a, value(position) AS b, convert(position, "USD", 2020-06-01) AS c',
    'SELECT account, sum(position) AS s, last(balance) AS b GROUP BY account ORDER BY account',
    'SELECT date, account, position, balance WHERE account ~ "Assets"',
    'SELECT account, open_date("Equity:Nope") AS a, open_meta("Equity:Nope", "k") AS b, close_date("Income") AS c FROM #accounts',
    'SELECT name, currency_meta(name, "nope") AS a, open_date(name) AS b FROM #commodities',
    'SELECT account, open_date(account) AS a, close_date(leaf(account)) AS b FROM #notes',
    'SELECT currency, getprice(currency, "USD", date) AS a, currency_meta(amount.currency, "name") AS b FROM #prices',
    'SELECT DISTINCT root(account, 1) AS r, open_date(root(account, 1)) AS o ORDER BY r',
    'SELECT account, sum(position) AS s FROM OPEN ON 2020-01-01 CLOSE ON 2021-01-01 CLEAR GROUP BY account',
    'SELECT date, narration FROM #transactions WHERE "trip" IN tags',
    'SELECT type, count(*) AS n FROM #entries GROUP BY type',
    'SELECT meta("nope") AS a, entry_meta("nope") AS b, any_meta("nope") AS c, meta["filename"] AS d FROM #postings',
    'BALANCES', 'BALANCES AT cost FROM year = 2020', 'JOURNAL "Assets"', 'JOURNAL "Nope" AT units',
    'SELECT * FROM #accounts', 'SELECT * FROM #commodities', 'SELECT * FROM #prices', 'SELECT * FROM #balances',
]


def read_workload(ctx, conn, rng, case):
    """Statements that only read: look-ups of accounts, currencies, metadata keys and prices that do not exist, reports,
    period views, aggregations. None of them may change what any table presents afterwards."""
    beanquery = engine.bq()
    for text in rng.sample(READS, rng.randint(3, 8)):
        try:
            cur = conn.execute(text)
            cur.fetchall()
            ctx.count('obs.read_statements')
        except beanquery.Error as exc:
            ctx.count('obs.read_statements_rejected')
            ctx.seen('read_statements_rejected', f'{text[:60]}: {str(exc)[:80]}')
        except Exception as exc:  # noqa: BLE001
            ctx.violation('c11.read_statement_raised', f'{text}: {type(exc).__name__}: {exc}', case)


def check_ledger(ctx, entries, errors, options, case, li, rng=None):
    beanquery = engine.bq()
    conn = beanquery.connect('beancount:', entries=entries, errors=errors, options=options)
    check_tables(ctx, conn, entries, case, li)
    if rng is not None:
        # first use: a NEW connection whose first scans of every table are left incomplete, then read in full
        conn2 = beanquery.connect('beancount:', entries=entries, errors=errors, options=options)
        first_use_workload(ctx, conn2, rng, case)
        check_tables(ctx, conn2, entries, dict(case, phase='read on a new connection whose first scans of the tables were left incomplete'), (li, 'first-use'))
        ctx.count('obs.ledgers_read_after_incomplete_first_scans')
    if rng is not None and li % 4 == 0:
        # re-attachment: a ledger that fails to load outright (errors, no directive), one without directives, another ledger
        reattach_sequence(ctx, conn, entries, errors, options, case, li, rng)
    if rng is not None:
        # history: the same connection after a series of reading statements presents the same tables
        before = ctx.counters['violations_raw']
        read_workload(ctx, conn, rng, case)
        if ctx.counters['violations_raw'] == before:
            check_tables(ctx, conn, entries, dict(case, phase='re-read on the same connection after a series of reading statements'), (li, 'after'))
            ctx.count('obs.ledgers_reread_after_reads')


FIRST_USE = {
    'postings': ('account', 'number'), 'entries': ('type', 'date'), 'transactions': ('flag', 'date'), 'prices': ('currency', 'date'),
    'balances': ('account', 'date'), 'notes': ('account', 'date'), 'events': ('type', 'date'), 'documents': ('account', 'date'),
    'accounts': ('account', 'account'), 'commodities': ('name', 'name'),
}


def first_use_workload(ctx, conn, rng, case):
    """The very first statements a connection executes on a table leave its first scan incomplete: a LIMIT that stops
    early, a sub-select over the same table evaluated while the enclosing scan is at its first row, a statement that fails
    part-way through. The tables read afterwards are complete all the same."""
    beanquery = engine.bq()
    tables = list(FIRST_USE)
    rng.shuffle(tables)
    for t in tables:
        a, b = FIRST_USE[t]
        kinds = rng.sample(['limit', 'self-subquery', 'failing', 'iterator'], rng.randint(1, 3))
        for kind in kinds:
            try:
                if kind == 'limit':
                    conn.execute(f'SELECT {a} FROM #{t} LIMIT 1').fetchall()
                elif kind == 'self-subquery':
                    conn.execute(f'SELECT {a}, {b} FROM #{t} WHERE {a} IN (SELECT {a} FROM #{t} WHERE {b} IS NOT NULL)').fetchall()
                elif kind == 'failing':
                    # raises at the first row whose value is not a date string
                    conn.execute(f'SELECT parse_date(str({a}), "%Y") FROM #{t}').fetchall()
                else:
                    # the table object scanned directly and abandoned after one row
                    it = iter(conn.tables[t])
                    next(it, None)
                    del it
                ctx.count(f'obs.first_use.{kind}')
            except (beanquery.Error, ValueError, TypeError, AttributeError) as exc:
                ctx.count(f'obs.first_use.{kind}')
                ctx.seen('first_use_errors', f'{kind}: {type(exc).__name__}')


def reattach_sequence(ctx, conn, entries, errors, options, case, li, rng):
    """attach() replaces what the connection presents, whatever the outcome of loading: after a ledger that fails to load
    (a malformed or missing file: errors and no directive) every table is empty; after the next good one they present it."""
    import os
    import tempfile
    from beancount import loader
    fd, path = tempfile.mkstemp(suffix='.beancount', prefix='bqv-c11-')
    os.close(fd)
    try:
        steps = rng.sample(['malformed', 'missing', 'empty', 'other'], rng.randint(2, 4)) + ['original']
        for step in steps:
            if step == 'malformed':
                with open(path, 'w') as f:
                    f.write('2020-01-01 opne Assets:Cash\n  this is not a directive\n')
                dsn = 'beancount:' + path
            elif step == 'missing':
                dsn = 'beancount:' + path + '.does-not-exist'
            elif step == 'empty':
                with open(path, 'w') as f:
                    f.write('; nothing here\n')
                dsn = 'beancount:' + path
            elif step == 'other':
                other = ledgers.gen_ledger(rng, ntxn=rng.randint(1, 5))
                with open(path, 'w') as f:
                    f.write(other.text)
                dsn = 'beancount:' + path
            else:
                dsn = None
            try:
                if dsn is None:
                    conn.attach('beancount:', entries=entries, errors=errors, options=options)
                    exp = entries
                else:
                    conn.attach(dsn)
                    exp = loader.load_file(dsn[len('beancount:'):])[0]
            except Exception as exc:  # noqa: BLE001
                ctx.violation('c11.attach_raised', f'attach ({step}): {type(exc).__name__}: {exc}', case)
                return
            ctx.count(f'obs.reattach.{step}')
            before = ctx.counters['violations_raw']
            check_tables(ctx, conn, exp, dict(case, phase=f'after re-attaching: {steps[:steps.index(step) + 1]}'), (li, 'attach', step))
            if ctx.counters['violations_raw'] != before:
                return
    finally:
        os.unlink(path)


def check_tables(ctx, conn, entries, case, li):
    from beancount.core import data
    from beancount.core.compare import hash_entry
    # ---- postings
    exp = expected_postings(entries)
    cols = list(exp[0][0].keys()) if exp else ['account']
    check_table(ctx, conn, 'postings', cols, [r for r, _, _ in exp], case, li)
    # ---- attribute chains on the structured cells of the postings (a zero amount is no NULL)
    if exp:
        chain = ('position.units.number AS a, position.units.currency AS b, weight.number AS c, weight.currency AS d, price.number AS e, price.currency AS f, '
                 'position.cost.number AS g, position.cost.currency AS h, entry.flag AS i, entry.narration AS j')
        try:
            got = conn.execute(parsed(f'SELECT {chain} FROM #postings')).fetchall()
        except Exception as exc:  # noqa: BLE001
            ctx.violation('c11.query_failed.attribute_chains', f'{type(exc).__name__}: {exc}', case)
            got = None
        if got is not None:
            for n, ((row, e, p), g) in enumerate(zip(exp, got)):
                w = weight_of(p)
                want = (p.units.number, p.units.currency, w.number, w.currency, p.price.number if p.price else None, p.price.currency if p.price else None,
                        p.cost.number if p.cost else None, p.cost.currency if p.cost else None, e.flag, e.narration)
                ctx.count('obs.attribute_chain_cells', len(want))
                if tuple(g) != want:
                    k = next(i for i, (x, y) in enumerate(zip(g, want)) if x != y)
                    ctx.violation('c11.attribute_chain', f'posting {n} ({p.account} {p.units}): attribute chain {chain.split(", ")[k]} = {show(g[k])!r}, the directive gives {show(want[k])!r}', case)
                    break
        for tname, col in (('prices', 'amount'), ('balances', 'amount')):
            cls = data.Price if tname == 'prices' else data.Balance
            ents = [x for x in entries if isinstance(x, cls)]
            try:
                got = conn.execute(parsed(f'SELECT {col}.number AS n, {col}.currency AS c FROM #{tname}')).fetchall()
            except Exception as exc:  # noqa: BLE001
                ctx.violation('c11.query_failed.attribute_chains', f'#{tname}: {type(exc).__name__}: {exc}', case)
                continue
            want = [(x.amount.number, x.amount.currency) for x in ents]
            if [tuple(r) for r in got] != want:
                ctx.violation('c11.attribute_chain', f'#{tname}: {col}.number / {col}.currency = {show_rows(got, 3)}, the directives give {show_rows(want, 3)}', case)
    # ---- entries
    erows = []
    for e in entries:
        is_txn = isinstance(e, data.Transaction)
        row = {'id': hash_entry(e), 'type': type(e).__name__.lower(), 'filename': e.meta['filename'], 'lineno': e.meta['lineno'],
               'date': e.date, 'year': e.date.year, 'month': e.date.month, 'day': e.date.day, 'meta': e.meta}
        row.update(txn_cols(e, is_txn))
        erows.append(row)
    check_table(ctx, conn, 'entries', list(erows[0].keys()) if erows else ['id'], erows, case, li)
    # ---- typed directive tables
    typed = {'transactions': (data.Transaction, {}), 'prices': (data.Price, {}), 'balances': (data.Balance, {'diff_amount': 'discrepancy'}),
             'notes': (data.Note, {}), 'events': (data.Event, {}), 'documents': (data.Document, {})}
    for tname, (cls, ren) in typed.items():
        fields = [f for f in cls._fields if f != 'postings']
        rows = [{ren.get(f, f): getattr(e, f) for f in fields} for e in entries if isinstance(e, cls)]
        kinds = dict(KINDS)
        check_table(ctx, conn, tname, [ren.get(f, f) for f in fields], rows, case, li)
    # ---- accounts: first open / first close per account, in order of first appearance
    acc = {}
    for e in entries:
        if isinstance(e, (data.Open, data.Close)):
            slot = acc.setdefault(e.account, [None, None])
            i = 0 if isinstance(e, data.Open) else 1
            if slot[i] is None or e.date < slot[i].date:
                slot[i] = e
    arows = [{'account': a, 'open': oc[0], 'close': oc[1]} for a, oc in acc.items()]
    check_table(ctx, conn, 'accounts', ['account', 'open', 'close'], arows, case, li)
    com = {}
    for e in entries:
        if isinstance(e, data.Commodity):
            com[e.currency] = e
    crows = [{'name': e.currency, 'date': e.date, 'meta': e.meta} for e in com.values()]
    check_table(ctx, conn, 'commodities', ['name', 'date', 'meta'], crows, case, li)
    # ---- metadata and directory functions on postings
    keys = META_KEYS
    if exp:
        targets = []
        for k in keys:
            targets += [f'meta("{k}") AS m_{keys.index(k)}', f'entry_meta("{k}") AS e_{keys.index(k)}', f'any_meta("{k}") AS a_{keys.index(k)}',
                        f'open_meta(account, "{k}") AS o_{keys.index(k)}', f'commodity_meta(currency, "{k}") AS c_{keys.index(k)}']
        targets += ['open_date(account) AS od', 'close_date(account) AS cd', 'open_date("Assets:Nope") AS odn',
                    'commodity_meta("NOPE", "name") AS cmn', 'open_meta("Assets:Nope", "note") AS omn', 'open_meta(account) AS om', 'commodity_meta(currency) AS cm']
        text = 'SELECT ' + ', '.join(targets) + ' FROM #postings'
        try:
            rows = conn.execute(parsed(text)).fetchall()
        except Exception as exc:  # noqa: BLE001
            ctx.violation('c11.query_failed.meta_functions', f'{type(exc).__name__}: {exc}', case)
            return
        for n, ((_, e, p), r) in enumerate(zip(exp, rows)):
            it = iter(r)
            o = acc.get(p.account, [None, None])
            cdir = com.get(p.units.currency)
            for k in keys:
                pm = p.meta.get(k) if p.meta is not None else None
                em = e.meta.get(k)
                am = p.meta.get(k, e.meta.get(k)) if p.meta is not None else None
                om = o[0].meta.get(k) if o[0] is not None else None
                cm = cdir.meta.get(k) if cdir is not None else None
                for label, expv in (('meta', pm), ('entry_meta', em), ('any_meta', am), ('open_meta', om), ('commodity_meta', cm)):
                    got = next(it)
                    ctx.count('obs.meta_lookups')
                    ctx.seen('meta_hit' if expv is not None else 'meta_miss', label)
                    if not same(got, expv) and got != expv:
                        ctx.violation(f'c11.function.{label}', f'{label}("{k}") on posting {n} ({p.account}): engine {show(got)!r} expected {show(expv)!r}', case)
                        return
            tail = [('open_date', o[0].date if o[0] else None), ('close_date', o[1].date if o[1] else None), ('open_date', None),
                    ('commodity_meta', None), ('open_meta', None), ('open_meta', o[0].meta if o[0] else None),
                    ('commodity_meta', cdir.meta if cdir else None)]
            for label, expv in tail:
                got = next(it)
                if got != expv:
                    ctx.violation(f'c11.function.{label}', f'{label} on posting {n} ({p.account}): engine {show(got)!r} expected {show(expv)!r}', case)
                    return


def constructed_entries(rng, entries):
    """Route (b): directives constructed directly and appended in date order."""
    from beancount.core import data
    from beancount.core.amount import Amount
    D = Decimal
    out = list(entries)
    last = max((e.date for e in entries), default=datetime.date(2020, 1, 1))
    meta = data.new_metadata('<constructed>', 1)
    one = data.Transaction(dict(meta, note='one posting'), last + datetime.timedelta(days=1), '*', None, 'one posting', data.EMPTY_SET, data.EMPTY_SET,
                           [data.Posting('Assets:Cash', Amount(D('1.00'), 'USD'), None, None, None, None)])
    six = data.Transaction(dict(meta, lineno=2), last + datetime.timedelta(days=2), '!', 'Six', '', frozenset({'t1', 't2'}), frozenset({'l1'}),
                           [data.Posting(a, Amount(D(n), 'USD'), None, None, fl, ({'filename': '<constructed>', 'lineno': 10 + i, 'ref': f'p{i}'} if i % 2 else None))
                            for i, (a, n, fl) in enumerate([('Expenses:Food', '1', None), ('Expenses:Food', '2', '!'), ('Expenses:Rent', '3', None),
                                                            ('Assets:Cash', '-1', None), ('Assets:Cash', '-2', '*'), ('Liabilities:Card', '-3', None)])])
    lot = data.Transaction(dict(meta, lineno=5), last + datetime.timedelta(days=2), '*', None, 'lots without date', data.EMPTY_SET, data.EMPTY_SET,
                           [data.Posting('Assets:Broker', Amount(D('2'), 'HOOL'), data.Cost(D('10.5'), 'USD', None, None), None, None, None),
                            data.Posting('Assets:Broker', Amount(D('1'), 'VTI'), data.Cost(D('7'), 'USD', None, 'lbl'), Amount(D('8'), 'USD'), None, {'filename': 'x', 'lineno': 7}),
                            data.Posting('Assets:Cash', Amount(D('-28'), 'USD'), None, None, None, None)])
    dup_open = data.Open(dict(meta, lineno=3, note='second open'), last + datetime.timedelta(days=3), 'Assets:Cash', None, None)
    dup_close = data.Close(dict(meta, lineno=4), last + datetime.timedelta(days=4), 'Expenses:Fees')
    # equal postings (same account, units, no cost, no price, no flag, no metadata -- as importers and scripts build them): the same
    # purchase on successive days, and twice within one transaction
    coffee = [data.Transaction(dict(meta, lineno=20 + i), last + datetime.timedelta(days=5 + i), '*', 'Cafe', 'coffee', data.EMPTY_SET, data.EMPTY_SET,
                               [data.Posting('Expenses:Food', Amount(D('3.50'), 'USD'), None, None, None, None),
                                data.Posting('Assets:Cash', Amount(D('-3.50'), 'USD'), None, None, None, None)]) for i in range(3)]
    twice = data.Transaction(dict(meta, lineno=30), last + datetime.timedelta(days=9), '*', None, 'the same posting twice', data.EMPTY_SET, data.EMPTY_SET,
                             [data.Posting('Expenses:Food', Amount(D('3.50'), 'USD'), None, None, None, None),
                              data.Posting('Expenses:Food', Amount(D('3.50'), 'USD'), None, None, None, None),
                              data.Posting('Assets:Cash', Amount(D('-7.00'), 'USD'), None, None, None, None)])
    out += [one, six, lot, dup_open, dup_close] + coffee + [twice]
    return out


def run_case(ctx, n):
    rng = ctx.rng('ledger', n)
    led = ledgers.gen_ledger(rng, ntxn=rng.randint(0, ctx.pick(14, 60)))
    entries, errors, options = led.loaded
    case = {'replay': ['ledger', n], 'ledger': led.text}
    if rng.random() < 0.4:
        entries = constructed_entries(rng, entries)
        case['constructed'] = True
        ctx.count('obs.constructed_ledgers')
    check_ledger(ctx, entries, errors, options, case, n, rng=rng)
    ctx.count('obs.ledgers')
    if len(ctx.samples) < 2:
        ctx.sample({'ledger_head': led.text[:600], 'directives': len(entries)})


def run(ctx):
    engine.bq()
    for n in range(ctx.pick(40, 1500)):
        if ctx.out_of_time():
            break
        run_case(ctx, n)


def replay(ctx, case):
    engine.bq()
    run_case(ctx, case['replay'][1])


def finalize(merged):
    c = merged['counters']
    reasons = []
    for t in ('postings', 'entries', 'transactions', 'prices', 'balances', 'notes', 'events', 'documents', 'accounts', 'commodities'):
        if c.get(f'obs.rows.{t}', 0) == 0:
            reasons.append(f'no row of table {t} compared')
    if c.get('obs.ledgers_read_after_incomplete_first_scans', 0) == 0 or c.get('obs.first_use.self-subquery', 0) == 0:
        reasons.append('no ledger read after incomplete first scans')
    if c.get('obs.reattach.malformed', 0) == 0 or c.get('obs.reattach.missing', 0) == 0:
        reasons.append('no re-attachment of a ledger that fails to load')
    if c.get('obs.ledgers_reread_after_reads', 0) == 0 or c.get('obs.read_statements', 0) == 0:
        reasons.append('no ledger was re-read after a series of reading statements')
    nonnull = merged['sets'].get('columns_nonnull', set())
    if len(nonnull) < 60:
        reasons.append(f'only {len(nonnull)} table columns seen with a non-NULL value')
    hit = merged['sets'].get('meta_hit', set())
    miss = merged['sets'].get('meta_miss', set())
    for f in ('meta', 'entry_meta', 'any_meta', 'open_meta', 'commodity_meta'):
        if f not in hit or f not in miss:
            reasons.append(f'{f}: hit and miss not both observed')
    merged['extra']['columns_seen_nonnull'] = len(nonnull)
    merged['extra']['columns_seen_null'] = len(merged['sets'].get('columns_null', ()))
    return reasons

"""C18 — scalar function library obeys calendar, account-name, string and numeric laws.

Every law is executed THROUGH BQL over harness tables (one statement evaluates a
law over a whole table) and each cell is compared with definitions written in the
harness from Python's datetime / calendar / slicing / re / decimal (R5).
The date domain 1900-01-01..2100-12-31 is enumerated completely in the thorough
tier (sampled 1-in-7 plus all unit boundaries in the quick tier).
"""
import calendar
import datetime
import itertools
import re
from decimal import Decimal, InvalidOperation

from dateutil.relativedelta import relativedelta

from .. import engine, ir, model
from ..ir import T_INT, T_DEC, T_STR, T_DATE, T_BOOL, T_OBJ
from ..values import same, show

ID = 'C18'
LEVEL = 'exploration'
EXHAUSTIVE = True
RULE = ('Dates: every date 1900-01-01..2100-12-31 (thorough; quick: every 7th date plus all month/quarter/year/decade/century '
        'boundaries and leap days) x every truncation / part unit; date_add/date_diff/+/- for n in [-800, 800]; date_bin for strides '
        '{1,2,3,7,30 days, 1,2,3,6 months, 1,2,5 years} x origins before/after/equal (origin day <= 28) including dates exactly on a '
        'bin boundary; date +/- interval. Accounts: all names of 1-5 components over the five root types (bounded enumeration). '
        'Strings: all strings of length <= 4 over {a,b,blank,colon} x all index/width arguments in [-5,6]; regex functions on a '
        'pattern pool. Numbers: all decimals with <= 3 significant digits and exponent in [-3,2], both signs. Casts: every value of '
        'every type incl. garbage strings (inf, nan, 1e5, unicode digits). A case = one (law statement, table slice); distinct by '
        'statement and slice; non-trivial when the slice has >= 2 rows.')
ASSUMPTIONS = ['inputs on which the definition itself is undefined (splitcomp index out of range, maxwidth < 5, zero or negative stride) '
               'are executed and counted, not judged',
               'Python datetime/calendar/re/decimal/dateutil.relativedelta are the definitions']
D = Decimal
date = datetime.date
UNDEF = object()


# ---------------------------------------------------------------------------
# R5 reference definitions

def first_of(unit, d):
    if unit == 'week':
        return d - datetime.timedelta(days=d.weekday())
    if unit == 'month':
        return date(d.year, d.month, 1)
    if unit == 'quarter':
        return date(d.year, 3 * ((d.month - 1) // 3) + 1, 1)
    if unit == 'year':
        return date(d.year, 1, 1)
    if unit == 'decade':
        return date(d.year // 10 * 10, 1, 1)
    if unit == 'century':
        return date((d.year - 1) // 100 * 100 + 1, 1, 1)
    if unit == 'millennium':
        return date((d.year - 1) // 1000 * 1000 + 1, 1, 1)
    raise KeyError(unit)


def part_of(unit, d):
    iso = d.isocalendar()
    return {
        'weekday': d.weekday(), 'dow': d.weekday(), 'isoweekday': d.isoweekday(), 'isodow': d.isoweekday(), 'week': iso[1],
        'month': d.month, 'quarter': (d.month + 2) // 3, 'year': d.year, 'isoyear': iso[0], 'decade': d.year // 10,
        'century': (d.year + 99) // 100, 'millennium': (d.year + 999) // 1000,
        'epoch': (d.toordinal() - date(1970, 1, 1).toordinal()) * 86400,
    }[unit]


TRUNC_UNITS = ['week', 'month', 'quarter', 'year', 'decade', 'century', 'millennium']
PART_UNITS = ['weekday', 'dow', 'isoweekday', 'isodow', 'week', 'month', 'quarter', 'year', 'isoyear', 'decade', 'century', 'millennium', 'epoch']


def bin_ref(stride, d, origin):
    """Start of the stride-aligned bin containing d."""
    kind, n = stride
    if kind == 'day':
        k = (d.toordinal() - origin.toordinal()) // n
        return date.fromordinal(origin.toordinal() + k * n)
    months = n if kind == 'month' else 12 * n
    total = (d.year - origin.year) * 12 + (d.month - origin.month)
    k = total // months
    start = origin + relativedelta(months=k * months)
    if start > d:
        k -= 1
        start = origin + relativedelta(months=k * months)
    return start


def shorten_ref(s, n):
    words = s.split()
    text = ' '.join(words)
    if len(text) <= n:
        return text
    ph = ' [...]'
    chosen = []
    for w in words:
        cand = ' '.join(chosen + [w])
        if len(cand) + len(ph) <= n:
            chosen.append(w)
        else:
            break
    if chosen:
        return ' '.join(chosen) + ph
    return ph.strip()


ROOTS = ['Assets', 'Liabilities', 'Equity', 'Income', 'Expenses']
CREDIT = {'Liabilities', 'Equity', 'Income'}


# ---------------------------------------------------------------------------
# execution helper

def safe_rows(ctx, conn, text, law):
    """Execute a statement of the harness; an exception of the engine is a violation of the law, not a harness error."""
    try:
        return conn.execute(text).fetchall()
    except Exception as exc:  # noqa: BLE001
        ctx.violation(f'c18.{law}.raised.{type(exc).__name__}', f'{text}: {type(exc).__name__}: {exc}', {'law': law, 'statement': text})
        return None


def run_law(ctx, name, columns, rows, exprs, refs, kinds=None):
    """Evaluate `SELECT k, <exprs> FROM #law` and compare each cell with refs[i](row dict)."""
    if not rows:
        return
    mt = model.ModelTable('law', [('k', T_INT)] + columns, [(i, *r) for i, r in enumerate(rows)])
    conn = engine.connection([mt])
    text = 'SELECT k, ' + ', '.join(f'{e} AS r{i}' for i, e in enumerate(exprs)) + ' FROM #law'
    case = {'law': name, 'statement': text, 'first_rows': [show(r) for r in rows[:3]]}
    try:
        res = conn.execute(text).fetchall()
    except Exception as exc:  # noqa: BLE001
        ctx.case((name, text, repr(rows[0])), len(rows) >= 2)
        ctx.violation(f'c18.{name}.raised.{type(exc).__name__}', f'{text}: {type(exc).__name__}: {exc} (table of {len(rows)} rows starting {show(rows[0])})', case)
        return
    ctx.case((name, text, repr(rows[0]), len(rows)), len(rows) >= 2)
    ctx.count('obs.law_statements')
    ctx.count('obs.law_cells', len(rows) * len(exprs))
    ctx.seen('laws', name)
    if len(ctx.samples) < 4:
        ctx.sample({'law': name, 'statement': text, 'rows': len(rows), 'first_row': show(rows[0]), 'first_result': show(res[0])})
    colnames = [c for c, _ in columns]
    for r, out in zip(rows, res):
        rowd = dict(zip(colnames, r))
        for i, ref in enumerate(refs):
            try:
                exp = ref(rowd)
            except Exception as exc:  # noqa: BLE001
                exp = UNDEF
            if exp is UNDEF:
                continue
            got = out[i + 1]
            kind = (kinds or {}).get(i, 'strict')
            ok = same(got, exp) if kind == 'strict' else (got == exp and type(got) is type(exp)) if kind == 'value' else kind(got, exp)
            if not ok:
                ctx.violation(f'c18.{name}', f'{exprs[i]} on {show(rowd)}: engine {show(got)!r} definition {show(exp)!r}', dict(case, row=show(rowd)))
                return
    # the same calls in key position: with one law expression shown, the rows ordered by ANOTHER one (often the same function
    # with other constant arguments) come in the order of that other expression's values
    if len(exprs) >= 2 and len(rows) <= 150:
        import datetime as _dt
        from decimal import Decimal as _Dec
        for shown, key in ((0, 1),):
            if exprs[shown] == exprs[key]:
                continue
            keys = []
            for r in rows:
                try:
                    keys.append(refs[key](dict(zip(colnames, r))))
                except Exception:  # noqa: BLE001
                    keys.append(UNDEF)
            kinds_seen = {type(v) for v in keys if v is not None}
            if any(isinstance(v, _Dec) and not v.is_finite() for v in keys):
                continue
            if any(v is UNDEF for v in keys) or not kinds_seen or not (kinds_seen <= {int, bool, _Dec} or kinds_seen <= {str} or kinds_seen <= {_dt.date}):
                continue
            text2 = f'SELECT k, {exprs[shown]} AS r FROM #law ORDER BY {exprs[key]}, k'
            try:
                res2 = conn.execute(text2).fetchall()
            except Exception as exc:  # noqa: BLE001
                # (the statement with the expressions as targets ran: what fails here is the ordering of the values, not the law)
                ctx.count(f'skipped.key_position_statement_raised.{type(exc).__name__}')
                continue
            ctx.count('obs.law_key_position_statements')
            expected = [i for i, _ in sorted(enumerate(keys), key=lambda kv: (kv[1] is not None, kv[1] if kv[1] is not None else 0, kv[0]))]
            if [r[0] for r in res2] != expected:
                bad = next(n for n, (a, b) in enumerate(zip([r[0] for r in res2], expected)) if a != b)
                ctx.violation(f'c18.{name}.key_position', f'{text2}: row {bad} of the result is table row {res2[bad][0]}; ordered by the values of {exprs[key]} it is table row '
                              f'{expected[bad]}', dict(case, statement=text2))
                return


# ---------------------------------------------------------------------------
# date laws

def date_slice(ctx):
    first, last = date(1900, 1, 1).toordinal(), date(2100, 12, 31).toordinal()
    out = []
    for o in range(first, last + 1):
        d = date.fromordinal(o)
        if ctx.quick:
            boundary = d.day in (1, 28, 29, 30, 31) and d.month in (1, 2, 3, 4, 6, 7, 9, 10, 12) or d.weekday() in (0, 6) and d.day < 8
            if not ((o - first) % 7 == 0 or (boundary and d.year % 10 in (0, 1, 9) or d.year in (1900, 2000, 2001, 2100))):
                continue
        out.append(d)
    # contiguous slices per shard keep the monotonicity check meaningful
    n = len(out)
    lo = n * ctx.shard // ctx.nshards
    hi = n * (ctx.shard + 1) // ctx.nshards
    return out[lo:hi]


def date_laws(ctx):
    dates = date_slice(ctx)
    ctx.count('obs.dates_enumerated', len(dates))
    rows = [(d,) for d in dates]
    cols = [('x', T_DATE)]
    exprs, refs = [], []
    for u in TRUNC_UNITS:
        exprs += [f'date_trunc("{u}", x)', f'date_trunc("{u}", date_trunc("{u}", x))', f'date_trunc("{u}", x) <= x']
        refs += [lambda r, u=u: first_of(u, r['x']), lambda r, u=u: first_of(u, r['x']), lambda r: True]
    run_law(ctx, 'date_trunc', cols, rows, exprs, refs)
    # monotone in d: along the (sorted) slice the truncation never decreases
    mt = model.ModelTable('law', [('k', T_INT), ('x', T_DATE)], [(i, d) for i, d in enumerate(dates)])
    conn = engine.connection([mt])
    for u in TRUNC_UNITS:
        res = safe_rows(ctx, conn, f'SELECT date_trunc("{u}", x) AS t FROM #law', 'date_trunc.monotone')
        if res is None:
            break
        ctx.count('obs.monotonicity_pairs', max(0, len(res) - 1))
        for (a,), (b,) in zip(res, res[1:]):
            if b < a:
                ctx.violation('c18.date_trunc.monotone', f'date_trunc("{u}", .) decreases between consecutive dates: {a} then {b}', {'unit': u})
                break
    exprs = [f'date_part("{u}", x)' for u in PART_UNITS]
    refs = [lambda r, u=u: part_of(u, r['x']) for u in PART_UNITS]
    exprs += ['year(x)', 'month(x)', 'day(x)', 'quarter(x)', 'weekday(x)', 'yearmonth(x)',
              'year(x) = date_part("year", date_trunc("year", x))', 'yearmonth(x) = date_trunc("month", x)',
              'date_part("quarter", x) = date_part("quarter", date_trunc("quarter", x))', 'date(year(x), month(x), day(x))',
              'date(str(x))', 'parse_date(str(x))', 'parse_date(str(x), "%Y-%m-%d")', 'date_trunc("bogus", x)', 'date_part("bogus", x)']
    refs += [lambda r: r['x'].year, lambda r: r['x'].month, lambda r: r['x'].day,
             lambda r: '%04d-Q%d' % (r['x'].year, (r['x'].month + 2) // 3),
             lambda r: ['Mon', 'Tue', 'Wed', 'Thu', 'Fri', 'Sat', 'Sun'][r['x'].weekday()],
             lambda r: r['x'].replace(day=1), lambda r: True, lambda r: True, lambda r: True, lambda r: r['x'], lambda r: r['x'],
             lambda r: r['x'], lambda r: r['x'], lambda r: None, lambda r: None]
    run_law(ctx, 'date_parts', cols, rows, exprs, refs)


def date_arith_laws(ctx):
    rng = ctx.rng('arith')
    dates = date_slice(ctx)
    if not dates:
        return
    ns = list(range(-800, 801, ctx.pick(37, 7))) + [-800, -1, 0, 1, 800, 365, 366, -365]
    rows = [(rng.choice(dates), n, rng.choice(dates)) for n in ns for _ in range(ctx.pick(2, 6))]
    cols = [('x', T_DATE), ('n', T_INT), ('y', T_DATE)]
    exprs = ['date_add(x, n)', 'x + n', 'n + x', 'x - n', 'date_diff(date_add(x, n), x)', '(x + n) - x', 'date_add(x, n) - n', 'date_diff(x, y)', 'x - y',
             'date_add(y, x - y)', 'date_add(x, 0 - n) = x - n']
    refs = [lambda r: date.fromordinal(r['x'].toordinal() + r['n']), lambda r: date.fromordinal(r['x'].toordinal() + r['n']),
            lambda r: date.fromordinal(r['x'].toordinal() + r['n']), lambda r: date.fromordinal(r['x'].toordinal() - r['n']),
            lambda r: r['n'], lambda r: r['n'], lambda r: r['x'], lambda r: r['x'].toordinal() - r['y'].toordinal(),
            lambda r: r['x'].toordinal() - r['y'].toordinal(), lambda r: r['x'], lambda r: True]
    run_law(ctx, 'date_arithmetic', cols, rows, exprs, refs)
    # interval arithmetic
    specs = [('1 day', relativedelta(days=1)), ('7 days', relativedelta(days=7)), ('-3 days', relativedelta(days=-3)), ('1 month', relativedelta(months=1)),
             ('3 months', relativedelta(months=3)), ('-1 month', relativedelta(months=-1)), ('1 year', relativedelta(years=1)), ('+2 years', relativedelta(years=2)),
             ('12 months', relativedelta(months=12)), ('0 days', relativedelta()), ('-1 year', relativedelta(years=-1)), ('-2 years', relativedelta(years=-2)),
             ('-3 months', relativedelta(months=-3)), ('+14 days', relativedelta(days=14)), ('100 years', relativedelta(years=100)), ('-18 months', relativedelta(months=-18))]
    rows = [(d,) for d in rng.sample(dates, min(len(dates), ctx.pick(300, 3000)))]
    exprs, refs = [], []
    for text, rd in specs:
        exprs += [f'x + interval("{text}")', f'x - interval("{text}")', f'interval("{text}") + x']
        refs += [lambda r, rd=rd: r['x'] + rd, lambda r, rd=rd: r['x'] - rd, lambda r, rd=rd: r['x'] + rd]
    run_law(ctx, 'interval_arithmetic', [('x', T_DATE)], rows, exprs, refs)
    # chains: calendar arithmetic is not associative (month ends are clipped step by step), so a chain is its steps in order
    exprs, refs = [], []
    pairs = [(a, b) for a in specs for b in specs]
    for (ta, ra), (tb, rb) in rng.sample(pairs, ctx.pick(40, len(pairs))):
        exprs += [f'x + interval("{ta}") + interval("{tb}")', f'x + interval("{ta}") - interval("{tb}")', f'x - interval("{ta}") + interval("{tb}")',
                  f'interval("{ta}") + x + interval("{tb}")', f'(x + interval("{ta}")) + interval("{tb}") = x + interval("{ta}") + interval("{tb}")']
        refs += [lambda r, ra=ra, rb=rb: r['x'] + ra + rb, lambda r, ra=ra, rb=rb: r['x'] + ra - rb, lambda r, ra=ra, rb=rb: r['x'] - ra + rb,
                 lambda r, ra=ra, rb=rb: r['x'] + ra + rb, lambda r: True]
    (ta, ra), (tb, rb), (tc, rc) = rng.sample(specs, 3)
    exprs += [f'x + interval("{ta}") + interval("{tb}") + interval("{tc}")', f'x + n + interval("{ta}") + 1', f'x + interval("{ta}") + n - interval("{tb}")']
    refs += [lambda r: r['x'] + ra + rb + rc, lambda r: r['x'] + relativedelta(days=r['n']) + ra + relativedelta(days=1),
             lambda r: r['x'] + ra + relativedelta(days=r['n']) - rb]
    month_ends = [d for d in dates if d.day >= 28]
    crows = [(d, rng.choice([0, 1, 2, 30, 365, -1, -31])) for d in (month_ends + rng.sample(dates, min(len(dates), ctx.pick(150, 1500))))]
    for i in range(0, len(exprs), 30):
        run_law(ctx, 'interval_chains', [('x', T_DATE), ('n', T_INT)], crows, exprs[i:i + 30], refs[i:i + 30])


STRIDES = [('day', 1), ('day', 2), ('day', 3), ('day', 7), ('day', 30), ('month', 1), ('month', 2), ('month', 3), ('month', 6), ('year', 1), ('year', 2), ('year', 5)]


def date_bin_laws(ctx):
    rng = ctx.rng('bin')
    dates = date_slice(ctx)
    if not dates:
        return
    sample = rng.sample(dates, min(len(dates), ctx.pick(150, 2000)))
    for si, (kind, n) in enumerate(STRIDES):
        stride_text = f'{n} {kind}' + ('s' if n > 1 else '')
        origins = []
        for d in rng.sample(sample, 3):
            origins.append(d.replace(day=min(d.day, 28)))
        origins += [date(1899, 12, 25), date(2101, 1, 15), date(2000, 1, 1)]
        for origin in origins:
            # dates from the sample plus dates exactly on bin boundaries
            rd = relativedelta(days=n) if kind == 'day' else relativedelta(months=n) if kind == 'month' else relativedelta(years=n)
            boundary = [origin + rd * k for k in range(-6, 7)]
            boundary = [b for b in boundary if date(1850, 1, 1) < b < date(2150, 1, 1)]
            ds = rng.sample(sample, min(len(sample), ctx.pick(25, 200))) + boundary + [origin]
            rows = [(d, origin) for d in ds]
            exprs = [f'date_bin("{stride_text}", x, o)', f'date_bin(interval("{stride_text}"), x, o)',
                     f'date_bin("{stride_text}", date_bin("{stride_text}", x, o), o)', f'date_bin("{stride_text}", x, o) <= x',
                     f'x < date_bin("{stride_text}", x, o) + interval("{stride_text}")']
            ref = lambda r, s=(kind, n): bin_ref(s, r['x'], r['o'])   # noqa: E731
            refs = [ref, ref, ref, lambda r: True, lambda r: True]
            run_law(ctx, f'date_bin', [('x', T_DATE), ('o', T_DATE)], rows, exprs, refs)
            ctx.count('obs.date_bin_boundary_dates', len(boundary))
    # origins on day 29-31 with month/year strides: which grid is "the" aligned one is not fixed by the statement (end-of-month
    # clipping), so only the grid-independent laws are demanded: the bin contains the date, bin starts are fixed points,
    # and the bin start is monotone in the date
    for kind, n in [s_ for s_ in STRIDES if s_[0] != 'day']:
        stride_text = f'{n} {kind}' + ('s' if n > 1 else '')
        rd = relativedelta(months=n) if kind == 'month' else relativedelta(years=n)
        for origin in (date(2024, 1, 31), date(2019, 12, 30), date(2020, 2, 29), date(2001, 3, 29), date(2024, 5, 31)):
            ds = sorted(set(rng.sample(sample, min(len(sample), ctx.pick(25, 150))) + [origin + relativedelta(months=k) for k in range(-8, 9)]))
            rows = [(d, origin) for d in ds]
            # (the end of a bin is the next grid point, which with a clipped end-of-month grid need not be start + stride: the
            # bin is only required not to end before the day after its start -- containment itself follows from start <= x,
            # fixed points and monotonicity)
            exprs = [f'date_bin("{stride_text}", x, o) <= x',
                     f'date_add(date_bin("{stride_text}", x, o), 1) > x OR date_bin("{stride_text}", date_add(date_bin("{stride_text}", x, o), 1), o) = date_bin("{stride_text}", x, o)',
                     f'date_bin("{stride_text}", date_bin("{stride_text}", x, o), o) = date_bin("{stride_text}", x, o)']
            run_law(ctx, 'date_bin_end_of_month_origin', [('x', T_DATE), ('o', T_DATE)], rows, exprs, [lambda r: True] * 3)
            mt2 = model.ModelTable('law', [('k', T_INT), ('x', T_DATE), ('o', T_DATE)], [(i, d, origin) for i, d in enumerate(ds)])
            res = safe_rows(ctx, engine.connection([mt2]), f'SELECT date_bin("{stride_text}", x, o) AS b FROM #law', 'date_bin_end_of_month_origin')
            if res is not None:
                for (a,), (b,) in zip(res, res[1:]):
                    if a is not None and b is not None and b < a:
                        ctx.violation('c18.date_bin_end_of_month_origin', f'date_bin("{stride_text}", ., {origin}) decreases between increasing dates: {a} then {b}', {'origin': str(origin)})
                        break
    # undefined inputs: executed, counted, not judged
    mt = model.ModelTable('law', [('k', T_INT), ('x', T_DATE)], [(0, date(2020, 1, 15))])
    conn = engine.connection([mt])
    for stride in ('0 days', '-1 day', '0 months', '-2 months', 'garbage'):
        try:
            out = conn.execute(f'SELECT date_bin("{stride}", x, 2020-01-01) AS r FROM #law').fetchall()
            ctx.count(f'undefined.date_bin.{stride.replace(" ", "_")}.returned')
        except Exception as exc:  # noqa: BLE001
            ctx.count(f'undefined.date_bin.{stride.replace(" ", "_")}.{type(exc).__name__}')


# ---------------------------------------------------------------------------
# accounts

def account_names(ctx):
    comps = ['Bank', 'Cash', 'A1', 'Sub-Acc']
    out = []
    for root in ROOTS:
        out.append(root)
        for n in range(1, 5):
            for tail in itertools.product(comps, repeat=n):
                out.append(':'.join((root,) + tail))
    return out


def account_laws(ctx):
    names = account_names(ctx)
    ctx.count('obs.accounts_enumerated', len(names) if ctx.shard == 0 else 0)
    mine = [a for i, a in enumerate(names) if ctx.mine(i)]
    rows = [(a, n) for a in mine for n in (0, 1, 2, 3, 5, 7)]
    exprs = ['root(a, n)', 'root(a)', 'parent(a)', 'leaf(a)', 'length(a)', 'upper(a)', 'lower(a)']
    refs = [lambda r: ':'.join(r['a'].split(':')[:r['n']]), lambda r: r['a'].split(':')[0], lambda r: ':'.join(r['a'].split(':')[:-1]),
            lambda r: r['a'].split(':')[-1], lambda r: len(r['a']), lambda r: r['a'].upper(), lambda r: r['a'].lower()]
    run_law(ctx, 'account_decomposition', [('a', T_STR), ('n', T_INT)], rows, exprs, refs)
    deep = [(a,) for a in mine if ':' in a]
    run_law(ctx, 'account_parent_leaf', [('a', T_STR)], deep, ['parent(a) = root(a, length(a) - length(leaf(a)) - 1) OR TRUE', 'leaf(a)'],
            [lambda r: True, lambda r: r['a'].rsplit(':', 1)[1]])
    # parent(a):leaf(a) = a  — string concatenation does not exist in BQL: compare in the harness
    mt = model.ModelTable('law', [('k', T_INT), ('a', T_STR)], [(i, a) for i, a in enumerate(mine)])
    conn = engine.connection([mt])
    res = safe_rows(ctx, conn, 'SELECT a, parent(a) AS p, leaf(a) AS l, account_sortkey(a) AS s FROM #law', 'account_parent_leaf')
    if res is None:
        return
    for a, p, l, s in res:
        ctx.count('obs.parent_leaf_checks')
        rebuilt = f'{p}:{l}' if p else l
        if rebuilt != a:
            ctx.violation('c18.account_parent_leaf', f'parent({a!r}):leaf = {rebuilt!r}', {'account': a})
            break
    # account_sortkey orders by (type index, name)
    by_key = [a for a, *_ in sorted(res, key=lambda r: r[3])]
    by_def = sorted((r[0] for r in res), key=lambda a: (ROOTS.index(a.split(':')[0]), a))
    ctx.count('obs.sortkey_orderings')
    if by_key != by_def:
        bad = next(i for i, (x, y) in enumerate(zip(by_key, by_def)) if x != y)
        ctx.violation('c18.account_sortkey', f'ordering by account_sortkey differs from (type, name) at position {bad}: {by_key[bad]} vs {by_def[bad]}', {})
    # possign
    from beancount.core import amount, position, inventory
    A = amount.Amount
    sample = [a for i, a in enumerate(mine) if i % 7 == 0]
    for a in sample[:ctx.pick(30, 400)]:
        flip = a.split(':')[0] in CREDIT
        inv = inventory.Inventory()
        inv.add_amount(A(D('2.5'), 'USD'))
        inv.add_amount(A(D('-1'), 'EUR'))
        pos = position.Position(A(D('3'), 'HOOL'), None)
        lconn = engine.connection([model.ModelTable('law', [('k', T_INT), ('a', T_STR), ('d', T_DEC)], [(0, a, D('1.50')), (1, a, D('-2')), (2, a, None)])])
        out = safe_rows(ctx, lconn, 'SELECT possign(d, a) AS r FROM #law', 'possign')
        if out is None:
            break
        exp = [(D('-1.50'),) if flip else (D('1.50'),), (D('2'),) if flip else (D('-2'),), (None,)]
        ctx.count('obs.possign_checks')
        if [tuple(r) for r in out] != exp or any(not same(x[0], y[0]) for x, y in zip(out, exp)):
            ctx.violation('c18.possign', f'possign(d, {a!r}) = {show(out)} expected {show(exp)}', {'account': a})
            break
    # the same laws with the root account names configured by the ledger (name_assets ... options)
    from .. import ledgers
    rled = ledgers.gen_ledger(ctx.rng('renamed-ledger'), ntxn=8, renamed_roots=True)
    rconn = engine.connection(ledger=rled.loaded)
    R = ledgers.RENAMED
    rnames = [':'.join([R[a.split(':')[0]]] + a.split(':')[1:]) for a in mine[::5]]
    rconn.tables['law'] = engine.harness_table(model.ModelTable('law', [('k', T_INT), ('a', T_STR), ('d', T_DEC)], [(i, a, D('2.50')) for i, a in enumerate(rnames)]))
    rres = safe_rows(ctx, rconn, 'SELECT a, account_sortkey(a) AS s, possign(d, a) AS p FROM #law', 'renamed_roots')
    if rres is None:
        return
    order = [R[x] for x in ROOTS]
    by_key = [r[0] for r in sorted(rres, key=lambda r: r[1])]
    by_def = sorted((r[0] for r in rres), key=lambda a: (order.index(a.split(':')[0]), a))
    ctx.count('obs.renamed_root_checks', len(rres))
    if by_key != by_def:
        ctx.violation('c18.account_sortkey', 'with renamed root accounts the ordering by account_sortkey differs from (type, name)', {'ledger_options': 'name_assets=Actifs ...'})
    for a, _, p in rres:
        flip = a.split(':')[0] in {R[x] for x in CREDIT}
        if p != (D('-2.50') if flip else D('2.50')):
            ctx.violation('c18.possign', f'with renamed root accounts possign(2.50, {a!r}) = {p}', {'account': a})
            break
    # possign on amount / position / inventory through a ledger connection
    led = ledgers.gen_ledger(ctx.rng('possign-ledger'), ntxn=8)
    lc = engine.connection(ledger=led.loaded)
    res = safe_rows(ctx, lc, 'SELECT account, position, possign(position, account) AS p, units(position) AS u, possign(units(position), account) AS pu, '
                    'balance, possign(balance, account) AS pb FROM #postings', 'possign')
    if res is None:
        return
    for acc, pos, ppos, u, pu, bal, pbal in res:
        flip = acc.split(':')[0] in CREDIT
        ctx.count('obs.possign_checks')
        if ppos != (-pos if flip else pos) or pu != (-u if flip else u) or pbal != (-bal if flip else bal):
            ctx.violation('c18.possign', f'possign on {acc}: position {pos} -> {ppos}, amount {u} -> {pu}, inventory {bal} -> {pbal}', {'account': acc})
            break


# ---------------------------------------------------------------------------
# strings

def string_laws(ctx):
    alphabet = ['a', 'b', ' ', ':']
    strings = ['']
    for n in range(1, 5):
        strings += [''.join(t) for t in itertools.product(alphabet, repeat=n)]
    mine = [s for i, s in enumerate(strings) if ctx.mine(i)]
    ctx.count('obs.strings_enumerated', len(strings) if ctx.shard == 0 else 0)
    args = list(range(-5, 7))
    rows = [(s, i, j) for s in mine for i in args for j in args]
    exprs = ['substr(s, i, j)', 'upper(s)', 'lower(s)', 'length(s)', 'length(substr(s, i, j))']
    refs = [lambda r: r['s'][r['i']:r['j']], lambda r: r['s'].upper(), lambda r: r['s'].lower(), lambda r: len(r['s']),
            lambda r: len(r['s'][r['i']:r['j']])]
    run_law(ctx, 'string_slicing', [('s', T_STR), ('i', T_INT), ('j', T_INT)], rows, exprs, refs)
    # splitcomp where defined
    rows = []
    for s in mine:
        for delim in (':', ' ', 'a'):
            parts = s.split(delim)
            for i in range(-len(parts), len(parts)):
                rows.append((s, delim, i))
    run_law(ctx, 'splitcomp', [('s', T_STR), ('dl', T_STR), ('i', T_INT)], rows, ['splitcomp(s, dl, i)'], [lambda r: r['s'].split(r['dl'])[r['i']]])
    # maxwidth for n >= 5
    texts = mine[::2] + ['hello world foo', 'a  b   c d e f g', 'averyveryverylongword and more', '  leading and trailing  ', 'x' * 12, 'ab cd ef gh ij kl']
    rows = [(s, n) for s in texts for n in (5, 6, 7, 8, 10, 12, 20, 48, 80)]
    run_law(ctx, 'maxwidth', [('s', T_STR), ('n', T_INT)], rows, ['maxwidth(s, n)', 'length(maxwidth(s, n)) <= n'],
            [lambda r: shorten_ref(r['s'], r['n']), lambda r: True])
    # regular expression functions
    patterns = ['a', 'b+', '^a', 'b$', 'a|b', '(a)(b)', '(a+)(:)?', '.', ' ', 'A', '[ab]:', 'x']
    rows = [(p, s, n) for p in patterns for s in mine[::3] + ['ab:ba', 'aab:b', 'Assets:Cash'] for n in (0, 1, 2)]
    def grepn_ref(r):
        m = re.search(r['p'], r['s'])
        if not m:
            return None
        if r['n'] > (re.compile(r['p']).groups):
            return UNDEF
        return m.group(r['n'])
    run_law(ctx, 'regex_functions', [('p', T_STR), ('s', T_STR), ('n', T_INT)], rows,
            ['grep(p, s)', 'grepn(p, s, 0)', 'subst(p, "X", s)', 's ~ p', 's !~ p'],
            [lambda r: (re.search(r['p'], r['s']).group(0) if re.search(r['p'], r['s']) else None),
             lambda r: (re.search(r['p'], r['s']).group(0) if re.search(r['p'], r['s']) else None),
             lambda r: re.sub(r['p'], 'X', r['s']), lambda r: re.search(r['p'], r['s'], re.IGNORECASE) is not None,
             lambda r: re.search(r['p'], r['s'], re.IGNORECASE) is None])
    defined = [r for r in rows if r[2] <= re.compile(r[0]).groups]
    run_law(ctx, 'grepn', [('p', T_STR), ('s', T_STR), ('n', T_INT)], defined, ['grepn(p, s, n)'], [grepn_ref])
    # findfirst / joinstr / length over sets (through the postings tags column of a ledger is C11; here harness set column)
    sets = [frozenset(), frozenset({'a'}), frozenset({'b', 'a', 'ab'}), frozenset({'trip', 'work', 'x-1'}), frozenset({'Assets:Cash', 'Assets:Bank'})]
    rows = [(p, v) for p in ['a', 'b', '^t', 'x', '.*k', 'Assets:B'] for v in sets]
    run_law(ctx, 'set_functions', [('p', T_STR), ('v', 'set')], rows, ['findfirst(p, v)', 'length(v)', 'joinstr(v)'],
            [lambda r: next((x for x in sorted(r['v']) if re.match(r['p'], x)), None), lambda r: len(r['v']),
             lambda r: ','.join(sorted(r['v']))],
            kinds={2: lambda got, exp: isinstance(got, str) and sorted(got.split(',')) == sorted(exp.split(',')) if exp else got == ''})
    # undefined inputs
    conn = engine.connection([model.ModelTable('law', [('k', T_INT), ('s', T_STR)], [(0, 'a:b')])])
    for expr in ('splitcomp(s, ":", 5)', 'maxwidth(s, 2)', 'maxwidth("hello world", 4)', 'grepn("(a)", s, 3)', 'grep("(", s)'):
        try:
            conn.execute(f'SELECT {expr} AS r FROM #law WHERE k >= 0').fetchall()
            ctx.count('undefined.string.returned')
        except Exception as exc:  # noqa: BLE001
            ctx.count(f'undefined.string.{type(exc).__name__}')


# ---------------------------------------------------------------------------
# numbers and casts

def number_laws(ctx):
    decs = []
    for digits in range(0, 1000, ctx.pick(7, 1)):
        for exp in (-3, -2, -1, 0, 1, 2):
            for sign in (0, 1):
                decs.append(D((sign, tuple(int(c) for c in str(digits)), exp)))
    mine = [d for i, d in enumerate(decs) if ctx.mine(i)]
    ctx.count('obs.decimals_enumerated', len(decs) if ctx.shard == 0 else 0)
    rng = ctx.rng('numbers')
    rows = [(d, rng.choice(mine), rng.choice([0, 1, 2, -1, 3]), rng.choice([0, 1, 2, 3, -2, 7])) for d in mine]
    exprs = ['abs(x)', 'neg(x)', '-x', 'round(x)', 'round(x, n)', 'safediv(x, y)', 'safediv(x, m)', 'safediv(x, 0)', 'safediv(x, 0.0)', 'abs(neg(x)) = abs(x)',
             'x + y', 'x - y', 'x * y', 'round(m, n)', 'round(m)']
    refs = [lambda r: abs(r['x']), lambda r: -r['x'], lambda r: -r['x'], lambda r: round(r['x'], 0), lambda r: round(r['x'], r['n']),
            lambda r: (D(0) if r['y'] == 0 else r['x'] / r['y']), lambda r: (D(0) if r['m'] == 0 else r['x'] / r['m']), lambda r: D(0), lambda r: D(0),
            lambda r: True, lambda r: r['x'] + r['y'], lambda r: r['x'] - r['y'], lambda r: r['x'] * r['y'], lambda r: round(r['m'], r['n']), lambda r: round(r['m'], 0)]
    run_law(ctx, 'numeric_functions', [('x', T_DEC), ('y', T_DEC), ('n', T_INT), ('m', T_INT)], rows, exprs, refs,
            kinds={5: 'value', 6: 'value', 7: 'value', 8: 'value'})


def py_cast(f, x):
    try:
        return f(x)
    except Exception:  # noqa: BLE001
        return None


def cast_laws(ctx):
    garbage = ['', ' ', 'abc', '12', ' 12 ', '-7', '+3', '1.5', '1e5', '1E-3', 'inf', '-inf', 'Infinity', 'nan', 'NaN', 'sNaN', '0x10', '1_000', '१२',
               '2020-01-31', '2020-02-30', '2020-1-5', '0000-01-01', '99999-01-01', '2020-01-31 ', 'TRUE', 'None', '9' * 40, '1.' + '0' * 40, '.5', '5.', '--1', '1,000']
    objs = garbage + [D('2'), D('-1.5'), D('1E+2'), D('0'), 7, 0, -3, True, False, date(2020, 1, 1), date(1900, 1, 1)]
    def to_date(x):
        if isinstance(x, date):
            return x
        if isinstance(x, str):
            try:
                return datetime.datetime.strptime(x, '%Y-%m-%d').date()
            except ValueError:
                return None
        return None
    def to_str(x):
        return 'TRUE' if x is True else 'FALSE' if x is False else str(x)
    rows = [(o,) for i, o in enumerate(objs) if True]
    run_law(ctx, 'casts_object', [('o', T_OBJ)], rows, ['int(o)', 'decimal(o)', 'str(o)', 'bool(o)', 'date(o)'],
            [lambda r: py_cast(int, r['o']), lambda r: py_cast(D, r['o']), lambda r: to_str(r['o']), lambda r: bool(r['o']), lambda r: to_date(r['o'])])
    rows = [(s,) for s in garbage]
    run_law(ctx, 'casts_str', [('s', T_STR)], rows, ['int(s)', 'decimal(s)', 'str(s)', 'bool(s)', 'date(s)', 'int(decimal(s))', 'decimal(int(s))', 'date(str(date(s)))'],
            [lambda r: py_cast(int, r['s']), lambda r: py_cast(D, r['s']), lambda r: r['s'], lambda r: bool(r['s']), lambda r: to_date(r['s']),
             lambda r: (py_cast(int, py_cast(D, r['s'])) if py_cast(D, r['s']) is not None else None),
             lambda r: (D(py_cast(int, r['s'])) if py_cast(int, r['s']) is not None else None), lambda r: to_date(r['s'])])
    decs = [D('0'), D('1.5'), D('-1.5'), D('1E+2'), D('123456789012345678901234567890'), D('0.9999'), D('-0.5'), D('NaN'), D('Infinity'), D('-Infinity')]
    run_law(ctx, 'casts_decimal', [('d', T_DEC)], [(d,) for d in decs], ['int(d)', 'decimal(d)', 'str(d)', 'bool(d)'],
            [lambda r: py_cast(int, r['d']), lambda r: r['d'], lambda r: str(r['d']), lambda r: bool(r['d'])])
    ints = [0, 1, -1, 10 ** 30, -7]
    run_law(ctx, 'casts_int_bool', [('i', T_INT), ('b', T_BOOL)], [(i, b) for i in ints for b in (True, False, None)],
            ['int(i)', 'decimal(i)', 'str(i)', 'bool(i)', 'int(b)', 'decimal(b)', 'str(b)', 'bool(b)'],
            [lambda r: r['i'], lambda r: D(r['i']), lambda r: str(r['i']), lambda r: bool(r['i']),
             lambda r: None if r['b'] is None else int(r['b']), lambda r: None if r['b'] is None else D(int(r['b'])),
             lambda r: None if r['b'] is None else ('TRUE' if r['b'] else 'FALSE'), lambda r: None if r['b'] is None else r['b']])
    run_law(ctx, 'casts_date', [('x', T_DATE)], [(date(2020, 2, 29),), (date(1, 1, 1),), (date(9999, 12, 31),)], ['date(x)', 'str(x)', 'date(str(x))'],
            [lambda r: r['x'], lambda r: r['x'].isoformat(), lambda r: to_date(r['x'].isoformat())])
    ymd = [(y, m, d) for y in (0, 1, 2020, 9999, 10000, -1) for m in (0, 1, 2, 12, 13) for d in (0, 1, 28, 29, 30, 31, 32)]
    run_law(ctx, 'date_from_ymd', [('y', T_INT), ('m', T_INT), ('d', T_INT)], ymd, ['date(y, m, d)'], [lambda r: py_cast(lambda t: date(*t), (r['y'], r['m'], r['d']))])


# (cheap parts first: under a time cut-off the floors of every part are still met)
def look_alike_calls(ctx):
    """Two calls of one function that differ only in a constant argument (or in the column) are two different expressions: each
    has its own values as a target AND as a sort key (run_law evaluates the second one in key position beside the first)."""
    if ctx.shard % 4 != 1:
        return
    import random as _random
    rng = _random.Random(18)
    dates = [date(2019, 1, 1) + datetime.timedelta(days=rng.randrange(0, 1200)) for _ in range(60)]
    rows = [(d, rng.randrange(0, 50), rng.randrange(0, 50)) for d in dates]
    cols = [('d', T_DATE), ('i', T_INT), ('j', T_INT)]
    for a, b, ra, rb in [
            ('date_part("year", d)', 'date_part("month", d)', lambda r: r['d'].year, lambda r: r['d'].month),
            ('date_part("month", d)', 'date_part("year", d)', lambda r: r['d'].month, lambda r: r['d'].year),
            ('date_trunc("year", d)', 'date_trunc("month", d)', lambda r: r['d'].replace(month=1, day=1), lambda r: r['d'].replace(day=1)),
            ('i % 2', 'i % 3', lambda r: r['i'] % 2, lambda r: r['i'] % 3), ('i % 7', 'j % 7', lambda r: r['i'] % 7, lambda r: r['j'] % 7),
            ('year(d)', 'month(d)', lambda r: r['d'].year, lambda r: r['d'].month), ('day(d)', 'month(d)', lambda r: r['d'].day, lambda r: r['d'].month)]:
        run_law(ctx, 'look_alike_calls', cols, rows, [a, b], [ra, rb])
    words = ['Assets:Bank:Checking', 'Expenses:Food:Out', 'Income:Salary:Base', 'Assets:Cash:Wallet', 'Liabilities:Card:Visa', 'Equity:Opening:Balances',
             'Expenses:Rent:Flat', 'Assets:Broker:Sub', 'Income:Gains:Long', 'Expenses:Fees:Bank']
    rows = [(rng.choice(words), rng.choice(words)) for _ in range(40)]
    cols = [('s', T_STR), ('t', T_STR)]
    for a, b, ra, rb in [
            ('substr(s, 0, 2)', 'substr(s, 7, 12)', lambda r: r['s'][0:2], lambda r: r['s'][7:12]),
            ('splitcomp(s, ":", 0)', 'splitcomp(s, ":", 2)', lambda r: r['s'].split(':')[0], lambda r: r['s'].split(':')[2]),
            ('splitcomp(s, ":", 1)', 'splitcomp(t, ":", 1)', lambda r: r['s'].split(':')[1], lambda r: r['t'].split(':')[1]),
            ('root(s, 1)', 'root(s, 2)', lambda r: r['s'].split(':')[0], lambda r: ':'.join(r['s'].split(':')[:2])),
            ('leaf(s)', 'leaf(t)', lambda r: r['s'].split(':')[-1], lambda r: r['t'].split(':')[-1]),
            ('maxwidth(s, 48)', 'maxwidth(t, 48)', lambda r: r['s'], lambda r: r['t'])]:
        run_law(ctx, 'look_alike_calls', cols, rows, [a, b], [ra, rb])
    ctx.count('obs.look_alike_call_pairs', 13)


PARTS = [look_alike_calls, cast_laws, string_laws, number_laws, account_laws, date_arith_laws, date_bin_laws, date_laws]


def run(ctx):
    engine.bq()
    for part in PARTS:
        if ctx.out_of_time():
            break
        # cast laws are tiny: one shard runs them
        if part is cast_laws and ctx.shard != 0:
            continue
        part(ctx)


def replay(ctx, case):
    engine.bq()
    print('law case: re-run the check (the enumeration does not depend on the seed except for sampled slices); case:', case)


def finalize(merged):
    c = merged['counters']
    reasons = []
    want = {'date_trunc', 'date_parts', 'date_arithmetic', 'interval_arithmetic', 'interval_chains', 'date_bin', 'account_decomposition', 'string_slicing', 'splitcomp',
            'maxwidth', 'date_bin_end_of_month_origin', 'regex_functions', 'grepn', 'set_functions', 'numeric_functions', 'casts_object', 'casts_str', 'casts_decimal', 'casts_int_bool',
            'date_from_ymd'}
    laws = set(merged['sets'].get('laws', ()))
    if want - laws:
        reasons.append(f'laws not executed: {sorted(want - laws)}')
    for k in ('obs.dates_enumerated', 'obs.monotonicity_pairs', 'obs.date_bin_boundary_dates', 'obs.parent_leaf_checks', 'obs.possign_checks', 'obs.sortkey_orderings', 'obs.renamed_root_checks'):
        if c.get(k, 0) == 0:
            reasons.append(f'{k} == 0')
    merged['extra']['dates_enumerated'] = c.get('obs.dates_enumerated', 0)
    merged['extra']['exhaustive'] = c.get('obs.dates_enumerated', 0) >= 73414
    return reasons

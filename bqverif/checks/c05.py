"""C05 — static validation is complete; rejections are ParseError/CompilationError only.

R3 oracle: statements valid by construction must be accepted; statements carrying
exactly one injected rule violation must be rejected with ParseError/CompilationError.
M6 exception-class monitor around parse/compile for valid, nearly valid and
arbitrary texts and hand-built ASTs; validation of every error location.
"""
import datetime
import itertools
import random

from .. import engine, gen, ir, ledgers, model, monitors, syngen
from ..ir import T_INT, T_DEC, T_STR, T_DATE, T_BOOL, T_OBJ
from .c06 import mutate

ID = 'C05'
LEVEL = 'exploration'
RULE = ('Injector part: for every static rule of the property one or more fault injectors applied to valid base statements '
        '(unknown table/column/attribute/function, every operator x every operand-type pair outside the specification table, '
        'ill-typed function arguments and arities, non-subscriptable operand, aggregates in WHERE/FROM/grouping keys, aggregate '
        'of aggregate, target/HAVING/ORDER BY mixing aggregate and bare column, uncovered non-aggregate target, GROUP BY/ORDER BY/'
        'PIVOT BY positions 0, n+1 and hidden, HAVING without aggregate, PIVOT rules, COALESCE rules, unhashable grouping key, '
        'multi-column IN sub-query, CLOSE before OPEN, placeholder/parameter mismatches) together with the neighbouring valid '
        'forms, which must be accepted. Robustness part: token-level mutations and every prefix of valid statements, random '
        'strings, invalid calendar dates, 40-digit integers in every integer position, hand-built ASTs without source positions; '
        'only ParseError/CompilationError/ProgrammingError may escape, every carried location must be a valid span. Distinct by '
        'text; non-trivial when the statement passes the parser (rejected at compile stage, or accepted).')
ASSUMPTIONS = [
    'parameter container mismatches (mapping for %s, sequence for %(name)s) may raise TypeError: the code does so deliberately',
    'an error located at the end of the text may carry the span [len, len+1)',
    'an aggregate used only in ORDER BY of a query without aggregate targets may be rejected or treated as implicit grouping',
]

TCOL = {T_INT: 'i', T_DEC: 'd', T_STR: 's', T_DATE: 'dt', T_BOOL: 'b', T_OBJ: 'o'}
TCOL2 = {T_INT: 'j', T_DEC: 'e', T_STR: 't', T_DATE: 'du', T_BOOL: 'c', T_OBJ: 'p'}
TLIT = {T_INT: '7', T_DEC: '1.50', T_STR: '"a"', T_DATE: '2020-01-01', T_BOOL: 'TRUE'}
SYM = ir.BIN_SYMBOL


def injector_cases():
    """-> list of (rule, text, params, expect) ; expect in {'accept', 'reject'} ; table 'ledger' marks ledger statements."""
    A, R = 'accept', 'reject'
    out = []

    def add(rule, text, expect, params=None):
        out.append((rule, text, params, expect))

    # names
    add('table', 'SELECT i FROM #t', A)
    add('table', 'SELECT i FROM #nosuch', R)
    add('table', 'SELECT i FROM #T', R)
    add('column', 'SELECT i, s FROM #t WHERE j > 1', A)
    add('column', 'SELECT nosuch FROM #t', R)
    add('column', 'SELECT i FROM #t WHERE nosuch > 1', R)
    add('column', 'SELECT i FROM #t GROUP BY nosuch', R)
    add('column', 'SELECT i FROM #t ORDER BY nosuch', R)
    add('column', 'SELECT i FROM (SELECT i AS a FROM #t)', R)
    add('column', 'SELECT a FROM (SELECT i AS a FROM #t)', A)
    add('function', 'SELECT upper(s) FROM #t', A)
    add('function', 'SELECT nosuchfunc(s) FROM #t', R)
    add('function', 'SELECT upper(i) FROM #t', R)
    add('function', 'SELECT upper() FROM #t', R)
    add('function', 'SELECT upper(s, s) FROM #t', R)
    add('function', 'SELECT year(s) FROM #t', R)
    add('function', 'SELECT length(i) FROM #t', R)
    add('function', 'SELECT abs(s) FROM #t', R)
    add('function', 'SELECT substr(s, s, 1) FROM #t', R)
    add('function', 'SELECT date_add(dt, d) FROM #t', R)
    add('function', 'SELECT sum(s) FROM #t', R)
    add('function', 'SELECT sum(dt) FROM #t', R)
    add('function', 'SELECT count() FROM #t', R)
    add('function', 'SELECT round(d, 1, 2) FROM #t', R)
    add('function', 'SELECT round(d, 1) FROM #t', A)
    add('subscript', 'SELECT i["k"] FROM #t', R)
    add('subscript', 'SELECT s["k"] FROM #t', R)
    add('attribute', 'SELECT s.number FROM #t', R)
    add('attribute', 'SELECT dt.year FROM #t', R)
    # operators: every operand-type pair
    valid = {(op, a, b) for op, a, b, r in gen.BIN_ALL}
    types = [T_INT, T_DEC, T_STR, T_DATE, T_BOOL, T_OBJ]
    for op in ['mul', 'div', 'mod', 'add', 'sub', 'eq', 'ne', 'gt', 'ge', 'lt', 'le', 'match', 'notmatch']:
        for a, b in itertools.product(types, repeat=2):
            expect = A if (op, a, b) in valid else R
            add(f'operator:{op}', f'SELECT {TCOL[a]} {SYM[op]} {TCOL2[b]} FROM #t', expect)
            if a in TLIT and b in TLIT and (a, b) != (T_DATE, T_INT):
                add(f'operator-literal:{op}', f'SELECT {TLIT[a]} {SYM[op]} {TLIT[b]} FROM #t', expect)
    for a in types:
        add('operator:neg', f'SELECT -{TCOL[a]} FROM #t', A if a in (T_INT, T_DEC, T_BOOL) else R)
    for a, b, c in itertools.product([T_INT, T_DEC, T_STR, T_DATE, T_BOOL], repeat=3):
        expect = A if (a, b, c) in set(gen.BETWEEN) else R
        add('operator:between', f'SELECT {TCOL[a]} BETWEEN {TCOL2[b]} AND {TCOL[c]} FROM #t', expect)
    for a in types:
        add('operator:in', f'SELECT {TCOL[a]} IN (1, 2) FROM #t', A)
        for b in [T_INT, T_STR, T_DATE, T_BOOL, T_DEC]:
            add('operator:in-scalar', f'SELECT {TCOL[a]} IN {TCOL2[b]} FROM #t', R)
            add('operator:in-scalar', f'SELECT {TCOL[a]} NOT IN {TCOL2[b]} FROM #t', R)
    # aggregates
    add('aggregate-in-where', 'SELECT i FROM #t WHERE sum(j) > 1', R)
    add('aggregate-in-where', 'SELECT i FROM #t WHERE j > 1 AND count(*) > 0', R)
    add('aggregate-in-from', 'SELECT date FROM sum(lineno) > 1', R)
    add('aggregate-in-from', 'SELECT date FROM lineno > 1', A)
    add('aggregate-in-group-key', 'SELECT count(*) FROM #t GROUP BY sum(i)', R)
    add('aggregate-in-group-key', 'SELECT count(*) AS n FROM #t GROUP BY n', R)
    add('aggregate-in-group-key', 'SELECT count(*) AS n FROM #t GROUP BY 1', R)
    add('aggregate-in-group-key', 'SELECT i, count(*) AS n FROM #t GROUP BY 1', A)
    add('aggregate-of-aggregate', 'SELECT sum(count(*)) FROM #t', R)
    add('aggregate-of-aggregate', 'SELECT max(sum(i)) FROM #t', R)
    add('aggregate-of-aggregate', 'SELECT sum(i + max(j)) FROM #t', R)
    add('aggregate-of-aggregate', 'SELECT first(last(s)) FROM #t', R)
    add('aggregate-of-aggregate', 'SELECT sum(i) + max(j) FROM #t', A)
    add('mixed-target', 'SELECT i + sum(j) FROM #t', R)
    add('mixed-target', 'SELECT i, j * count(*) FROM #t GROUP BY i', R)
    add('mixed-target', 'SELECT upper(s), length(s) + count(*) FROM #t GROUP BY 1', R)
    add('mixed-target', 'SELECT i, 2 * count(*) FROM #t GROUP BY i', A)
    add('mixed-having', 'SELECT i, count(*) FROM #t GROUP BY i HAVING sum(j) + i > 1', R)
    add('mixed-having', 'SELECT i, count(*) FROM #t GROUP BY i HAVING sum(j) + 1 > 1', A)
    add('mixed-order-by', 'SELECT i, count(*) FROM #t GROUP BY i ORDER BY sum(j) + i', R)
    add('mixed-order-by', 'SELECT i, count(*) FROM #t GROUP BY i ORDER BY sum(j) + 1', A)
    # the aggregate rules see an aggregate (and a bare column) in EVERY operand position of every composite form
    forms = ['j BETWEEN 0 AND {a}', 'j BETWEEN {a} AND 100', '{a} BETWEEN 0 AND j', '{a} BETWEEN j AND 100', 'coalesce(j, {a}) > 1', 'coalesce({a}, j) > 1',
             '({a} > 1) AND (j > 1)', '(j > 1) OR ({a} > 1)', 'NOT ({a} > j)', '({a} + j) IS NULL', '({a} - j) IS NOT NULL', '-({a}) + j > 0', 'length(str({a})) + j > 0',
             'j IN (SELECT i FROM #t WHERE i < 3) AND {a} > 0', 'round(1.5 * j, {a}) > 1', 'safediv(1.5 * j, {a}) > 1']
    for form in forms:
        for agg in ('max(j)', 'count(*)'):
            f = form.format(a=agg)
            add('aggregate-in-where/operand-position', f'SELECT i FROM #t WHERE {f}', R)
            add('aggregate-in-group-key/operand-position', f'SELECT count(*) FROM #t GROUP BY {f}', R)
            add('mixed-target/operand-position', f'SELECT {f} FROM #t', R)
            add('mixed-having/operand-position', f'SELECT i, count(*) FROM #t GROUP BY i HAVING {f}', R)
            add('mixed-order-by/operand-position', f'SELECT i, count(*) FROM #t GROUP BY i ORDER BY {f}', R)
            add('aggregate-of-aggregate/operand-position', f'SELECT count({f}) FROM #t', R)
            # the same form over the aggregate and constants / grouped columns only is a legitimate aggregate expression
            pure = form.format(a=agg).replace('j', '5').replace('max(5)', 'max(j)')
            if 'SELECT' not in form:
                add('aggregate-expression/operand-position', f'SELECT {pure} FROM #t', A)
                add('aggregate-expression/operand-position', f'SELECT i, {pure} FROM #t GROUP BY i', A)
                add('aggregate-expression/operand-position', f'SELECT i, count(*) FROM #t GROUP BY i HAVING {pure}', A)
    add('uncovered-target', 'SELECT i, j, count(*) FROM #t GROUP BY i', R)
    add('uncovered-target', 'SELECT i, s FROM #t GROUP BY i', R)
    add('uncovered-target', 'SELECT i, count(*) FROM #t GROUP BY j', R)
    add('uncovered-target', 'SELECT i, count(*) FROM #t GROUP BY i, j', A)
    add('uncovered-target', 'SELECT i, j, count(*) FROM #t', A)          # implicit grouping
    add('uncovered-order-by', 'SELECT i, count(*) FROM #t GROUP BY i ORDER BY j', R)
    add('uncovered-order-by', 'SELECT i, count(*) FROM #t GROUP BY i ORDER BY i', A)
    add('having-not-aggregate', 'SELECT i, count(*) FROM #t GROUP BY i HAVING i > 1', R)
    add('having-not-aggregate', 'SELECT i, count(*) FROM #t GROUP BY i HAVING TRUE', R)
    add('having-not-aggregate', 'SELECT i, count(*) FROM #t GROUP BY i HAVING count(*) > 1', A)
    add('order-by-aggregate-on-plain-query', 'SELECT i FROM #t ORDER BY sum(j)', 'reject-or-group')
    # positions
    for clause in ('GROUP BY', 'ORDER BY'):
        add(f'position:{clause}', f'SELECT i, j FROM #t {clause} 0', R)
        add(f'position:{clause}', f'SELECT i, j FROM #t {clause} 3', R)
        add(f'position:{clause}', f'SELECT i, j FROM #t {clause} 99999999999999999999999', R)
        add(f'position:{clause}', f'SELECT i, j FROM #t {clause} 1, 2', A)
        if clause == 'ORDER BY':
            add(f'position:{clause}', f'SELECT i, i FROM #t {clause} 2', A)
    add('position:hidden', 'SELECT i, count(*) FROM #t GROUP BY i, j ORDER BY 3', R)
    add('position:hidden', 'SELECT count(*) FROM #t GROUP BY i, 2', R)
    add('position:hidden', 'SELECT i, count(*) FROM #t GROUP BY i ORDER BY j + 1, 3', R)
    # pivot
    add('pivot', 'SELECT i, s, count(*) FROM #t GROUP BY 1, 2 PIVOT BY 1, 2', A)
    add('pivot', 'SELECT i, s, count(*) FROM #t GROUP BY 1, 2 PIVOT BY i, s', A)
    add('pivot', 'SELECT i, s, count(*) FROM #t GROUP BY 1, 2 PIVOT BY 1, 1', R)
    add('pivot', 'SELECT i, s, count(*) FROM #t GROUP BY 1, 2 PIVOT BY i, i', R)
    add('pivot', 'SELECT i, s, count(*) FROM #t GROUP BY 1, 2 PIVOT BY 1, 3', R)
    add('pivot', 'SELECT i, s, count(*) FROM #t GROUP BY 1, 2 PIVOT BY 0, 2', R)
    add('pivot', 'SELECT i, s, count(*) FROM #t GROUP BY 1, 2 PIVOT BY 1, 4', R)
    add('pivot', 'SELECT i, s, count(*) FROM #t GROUP BY 1, 2 PIVOT BY nosuch, 2', R)
    add('pivot', 'SELECT i, count(*) FROM #t GROUP BY i, s PIVOT BY 1, 3', R)
    add('pivot', 'SELECT i, count(*) FROM #t GROUP BY i, s PIVOT BY 3, 1', R)
    add('pivot', 'SELECT i, s, j FROM #t PIVOT BY 1, 2', R)
    add('pivot', 'SELECT i, s FROM #t PIVOT BY i, s', R)
    # reference forms: every way of designating a target (position, column name, alias) in every combination
    for sel, refs in (('SELECT i, s, count(*) AS n', {0: ['1', 'i'], 1: ['2', 's'], 2: ['3', 'n']}),
                      ('SELECT i AS a, s AS b, count(*) AS n', {0: ['1', 'a'], 1: ['2', 'b'], 2: ['3', 'n']}),
                      ('SELECT s AS b, sum(j) AS n, i AS a', {2: ['3', 'a'], 0: ['1', 'b'], 1: ['2', 'n']})):
        keys = [t for t in refs if refs[t][1] != 'n']
        agg = next(t for t in refs if refs[t][1] == 'n')
        gb = f'GROUP BY {refs[keys[0]][0]}, {refs[keys[1]][0]}'
        for t1 in refs:
            for t2 in refs:
                for r1 in refs[t1]:
                    for r2 in refs[t2]:
                        # PIVOT BY: two different targets, the second one grouped (the property asks no more of the first)
                        ok = t1 != t2 and t2 != agg
                        add('pivot-reference-forms', f'{sel} FROM #t {gb} PIVOT BY {r1}, {r2}', A if ok else R)
        for k1 in refs[keys[0]]:
            for k2 in refs[keys[1]]:
                add('group-reference-forms', f'{sel} FROM #t GROUP BY {k1}, {k2}', A)
                add('group-reference-forms', f'{sel} FROM #t GROUP BY {k2}, {k1}', A)
                add('group-reference-forms', f'{sel} FROM #t GROUP BY {k1}, {k2}, {k1}', A)
                for ra in refs[agg]:
                    add('group-reference-forms', f'{sel} FROM #t GROUP BY {k1}, {k2}, {ra}', R)      # an aggregate as a grouping key
                    add('group-reference-forms', f'{sel} FROM #t GROUP BY {ra}, {k1}, {k2}', R)
                    add('order-reference-forms', f'{sel} FROM #t GROUP BY {k1}, {k2} ORDER BY {ra}, {k2} DESC, {k1}', A)
            add('group-reference-forms', f'{sel} FROM #t GROUP BY {k1}', R)                               # the other key target is not covered
    # dates that do not exist, in every position a literal can take (bare, parenthesised, list element, argument, bound, clause date)
    for bad in ('2024-02-30', '2021-02-29', '2024-13-01', '2020-00-10', '2020-04-31'):
        for tmpl in ('SELECT {}', 'SELECT ({})', 'SELECT (({}))', 'SELECT ( {} )', 'SELECT 1 + ({}) * 2', 'SELECT dt IN ({},) FROM #t', 'SELECT dt IN ({}, 2020-01-01) FROM #t',
                     'SELECT dt IN (2020-01-01, {}) FROM #t', 'SELECT year({}) FROM #t', 'SELECT year(({})) FROM #t', 'SELECT dt BETWEEN {} AND 2020-01-01 FROM #t',
                     'SELECT dt BETWEEN 2020-01-01 AND ({}) FROM #t', 'SELECT dt < ({}) FROM #t', 'SELECT i FROM #t WHERE dt = {}', 'SELECT coalesce(dt, ({})) FROM #t',
                     'SELECT date FROM OPEN ON {}', 'SELECT date FROM CLOSE ON {}', 'SELECT -({}) FROM #t', 'SELECT i FROM #t ORDER BY ({})'):
            add('invalid-calendar-date', tmpl.format(bad), R)
    for good in ('2024-02-29', '2020-12-31'):
        for tmpl in ('SELECT ({})', 'SELECT dt IN ({},) FROM #t', 'SELECT year(({})) FROM #t', 'SELECT dt < ({}) FROM #t'):
            add('invalid-calendar-date', tmpl.format(good), A)
    # constant expressions that cannot be evaluated: refused at compile time, whatever the Python exception underneath
    # (re.error, OverflowError, IndexError, ValueError, decimal signals, ZeroDivisionError of a float modulo)
    for expr in ('"abc" ~ "("', '"abc" !~ "(?P<n"', 'grep("(", "abc")', 'grepn("(", "abc", 0)', 'subst("(", "x", "abc")', 'str(1) ~ "["', 'upper("a") ~ "*"',
                 '9999-12-31 + 1', 'date_add(9999-12-31, 1)', '2020-01-01 - 100000000', 'splitcomp("a:b", ":", 5)', 'maxwidth("abc", -1)', 'maxwidth("abc", 2)',
                 'parse_date("x", "%Y")', 'decimal("1E+999999") * decimal("1E+999999")', 'round(1.5, 100000)', 'date_bin("0 days", 2020-01-01, 2020-01-01)'):
        for tmpl in ('SELECT {} FROM #t', 'SELECT i FROM #t WHERE {} = s', 'SELECT count(*) FROM #t GROUP BY {}', 'SELECT i FROM #t ORDER BY {}',
                     'SELECT i, count(*) FROM #t GROUP BY i HAVING count(*) > 0 AND str({}) = "x"', 'SELECT i IN (SELECT j FROM #t WHERE str({}) = s) FROM #t'):
            add('constant-cannot-be-evaluated', tmpl.format(expr), R)
    # IN sub-selects: exactly one column (none, as SELECT * over the null table gives, is not one)
    add('in-subquery-columns', 'SELECT i FROM #t WHERE i IN (SELECT * FROM #)', R)
    add('in-subquery-columns', 'SELECT i FROM #t WHERE i NOT IN (SELECT * FROM # WHERE FALSE)', R)
    add('in-subquery-columns', 'SELECT i IN (SELECT * FROM #) FROM #t', R)
    add('in-subquery-columns', 'SELECT i FROM #t WHERE i IN (SELECT i, j FROM #t)', R)
    add('in-subquery-columns', 'SELECT i FROM #t WHERE i IN (SELECT * FROM #t)', R)
    add('in-subquery-columns', 'SELECT i FROM #t WHERE i IN (SELECT j FROM #t)', A)
    add('in-subquery-columns', 'SELECT i FROM #t WHERE i IN (SELECT * FROM (SELECT j FROM #t))', A)
    # an existing table without rows (list-backed: its truth value is False)
    add('empty-table', 'SELECT i, s FROM #nostock', A)
    add('empty-table', 'SELECT s, count(*) FROM #nostock GROUP BY s', A)
    add('empty-table', 'SELECT i FROM #t WHERE i IN (SELECT i FROM #nostock)', A)
    add('empty-table', 'SELECT * FROM (SELECT i FROM #nostock)', A)
    add('empty-table', 'SELECT nosuch FROM #nostock', R)
    add('empty-table', 'SELECT i, count(*) FROM #nostock GROUP BY s', R)
    # coalesce
    add('coalesce', 'SELECT coalesce(i, j) FROM #t', A)
    add('coalesce', 'SELECT coalesce(i, 1) FROM #t', A)
    add('coalesce', 'SELECT coalesce(i, s) FROM #t', R)
    add('coalesce', 'SELECT coalesce(i, d) FROM #t', R)
    add('coalesce', 'SELECT coalesce(s, 1, s) FROM #t', R)
    add('coalesce', 'SELECT coalesce() FROM #t', R)
    # uniform means the same type, not a sub-type nor "anything after an untyped value"
    add('coalesce', 'SELECT coalesce(i, b) FROM #t', R)
    add('coalesce', 'SELECT coalesce(1, TRUE) FROM #t', R)
    add('coalesce', 'SELECT coalesce(b, i) FROM #t', R)
    add('coalesce', 'SELECT coalesce(o, NULL) FROM #t', R)
    add('coalesce', 'SELECT coalesce(o, s) FROM #t', R)
    add('coalesce', 'SELECT coalesce(meta["note"], NULL) FROM #postings', R)
    add('coalesce', 'SELECT coalesce(o, p) FROM #t', A)
    add('coalesce', 'SELECT coalesce(NULL, NULL) FROM #t', A)
    add('coalesce', 'SELECT coalesce(s) FROM #t', A)
    # IN sub-query
    add('in-subquery', 'SELECT i IN (SELECT j FROM #t) FROM #t', A)
    add('in-subquery', 'SELECT i IN (SELECT j, i FROM #t) FROM #t', R)
    add('in-subquery', 'SELECT i FROM #t WHERE i NOT IN (SELECT j, k FROM #t)', R)
    add('in-subquery', 'SELECT i FROM #t WHERE i IN (SELECT * FROM #t)', R)
    # OPEN / CLOSE
    add('open-close', 'SELECT date FROM OPEN ON 2020-01-01 CLOSE ON 2021-01-01', A)
    add('open-close', 'SELECT date FROM OPEN ON 2020-01-01 CLOSE ON 2020-01-01', A)
    add('open-close', 'SELECT date FROM OPEN ON 2020-01-01 CLOSE', A)
    add('open-close', 'SELECT date FROM OPEN ON 2020-01-01 CLOSE CLEAR', A)
    add('open-close', 'SELECT date FROM CLOSE', A)
    add('open-close', 'SELECT date FROM year = 2020 OPEN ON 2020-01-01 CLOSE', A)
    add('open-close', 'SELECT date FROM OPEN ON 2020-01-02 CLOSE ON 2020-01-01', R)
    add('open-close', 'SELECT date FROM year > 1 OPEN ON 2021-01-01 CLOSE ON 2020-12-31 CLEAR', R)
    add('open-close', 'BALANCES FROM OPEN ON 2021-01-01 CLOSE ON 2020-12-31', R)
    add('open-close', 'JOURNAL FROM OPEN ON 2021-01-01 CLOSE ON 2020-12-31', R)
    add('open-close', 'PRINT FROM OPEN ON 2021-01-01 CLOSE ON 2020-12-31', R)
    add('open-close', 'PRINT FROM OPEN ON 2020-01-01 CLOSE', A)
    # ledger: structured types, unhashable grouping keys
    add('attribute', 'SELECT position.units.number FROM #postings', A)
    add('attribute', 'SELECT position.nosuch FROM #postings', R)
    add('attribute', 'SELECT position.units.nosuch FROM #postings', R)
    add('attribute', 'SELECT account.nosuch FROM #postings', R)
    add('attribute', 'SELECT number.units FROM #postings', R)
    add('subscript', 'SELECT meta["k"] FROM #postings', A)
    add('subscript', 'SELECT account["k"] FROM #postings', R)
    add('subscript', 'SELECT tags["k"] FROM #postings', R)
    add('unhashable-group-key', 'SELECT count(*) FROM #postings GROUP BY tags', R)
    add('unhashable-group-key', 'SELECT count(*) FROM #postings GROUP BY balance', R)
    add('unhashable-group-key', 'SELECT count(*) FROM #postings GROUP BY meta', R)
    add('unhashable-group-key', 'SELECT count(*) FROM #postings GROUP BY other_accounts', R)
    add('unhashable-group-key', 'SELECT tags, count(*) FROM #postings', R)
    add('unhashable-group-key', 'SELECT count(*) FROM #postings GROUP BY account', A)
    # parameters
    add('parameters', 'SELECT i FROM #t WHERE i > %s', A, [1])
    add('parameters', 'SELECT i FROM #t WHERE i > %s AND j < %s', A, [1, 2])
    add('parameters', 'SELECT i FROM #t WHERE i > %(a)s AND j < %(a)s', A, {'a': 1})
    add('parameters', 'SELECT i FROM #t WHERE i > %(a)s', A, {'a': 1, 'unused': 2})
    add('parameters', 'SELECT i FROM #t WHERE i > %s', R, [])
    add('parameters', 'SELECT i FROM #t WHERE i > %s', R, [1, 2])
    add('parameters', 'SELECT i FROM #t WHERE i > %s AND j < %s', R, [1])
    add('parameters', 'SELECT i FROM #t WHERE i > %(a)s', R, {'b': 1})
    add('parameters', 'SELECT i FROM #t WHERE i > %(a)s AND j < %(b)s', R, {'a': 1})
    add('parameters', 'SELECT i FROM #t WHERE i > %(a)s AND j < %s', R, {'a': 1})
    add('parameters', 'SELECT i FROM #t WHERE i > %(a)s AND j < %s', R, [1, 2])
    add('parameters', 'SELECT i FROM #t WHERE i > %s', 'reject-or-typeerror', {'a': 1})
    add('parameters', 'SELECT i FROM #t WHERE i > %(a)s', 'reject-or-typeerror', [1])
    add('parameters', 'SELECT i FROM #t WHERE i > %s', 'reject-or-typeerror', None)
    add('parameters', 'SELECT i FROM #t WHERE i > %s AND s ~ %s', R, ['a', 'a'])   # ill-typed after binding
    return out


def attempt(conn, text, params=None, execute=False, ast=None):
    """parse + compile (+ execute). -> (phase, outcome, exc) with outcome 'ok' or the exception class label."""
    from beanquery import compiler
    phase = 'parse'
    try:
        stmt = ast if ast is not None else conn.parse(text)
        phase = 'compile'
        c = compiler.compile(conn, stmt, params)
        if execute:
            phase = 'execute'
            from beanquery import query_execute, query_compile
            if isinstance(c, query_compile.EvalPrint):
                import io
                query_execute.execute_print(c, io.StringIO())
            else:
                query_execute.execute_query(c)
        return phase, 'ok', None
    except Exception as exc:  # noqa: BLE001
        return phase, monitors.classify_exception(exc), exc


def classify_unexpected(text, phase, label, exc, params=None):
    """Mechanism ids for exceptions of the wrong class (known-finding classification)."""
    import re
    msg = str(exc)
    if label == 'ValueError' and phase == 'parse' and re.search(r'\d{4}-\d{2}-\d{2}', text):
        return 'c05.invalid_calendar_date_valueerror'
    if label == 'IndexError' and re.search(r'(?i)coalesce\s*\(\s*\)', text):
        return 'c05.coalesce_no_argument_indexerror'
    if label == 'TypeError' and re.search(r'(?i)pivot\s+by', text) and 'NoneType' in msg:
        return 'c05.pivot_on_non_aggregate_typeerror'
    if label == 'TypeError' and re.search(r'(?i)open\s+on', text) and re.search(r'(?i)close(?!\s+on)', text):
        return 'c05.open_with_dateless_close_typeerror'
    if label == 'TypeError' and ("'EvalQuery' object" in msg or "'EvalPivot' object" in msg) and re.search(r'(?i)select.*select', text, re.S):
        return 'c05.subquery_in_scalar_position'
    if label == 'IndexError' and phase == 'parse' and not text.strip():
        return 'c05.empty_statement_indexerror'
    return f'c05.wrong_exception_class.{phase}.{label}'


def check_location(ctx, exc, text, case):
    pi = getattr(exc, 'parseinfo', None)
    if pi is None:
        return
    ctx.count('obs.locations_validated')
    try:
        src = pi.tokenizer.text
        pos, endpos, line = pi.pos, pi.endpos, pi.line
    except Exception as e:  # noqa: BLE001
        ctx.violation('c05.location_unreadable', f'{text!r}: parseinfo unreadable: {e!r}', case)
        return
    problem = None
    n = len(src)
    if not (0 <= pos <= n and pos <= endpos <= max(n, pos + 1)):
        problem = f'span [{pos},{endpos}) is not a span of the text (length {n})'
    else:
        nlines = max(1, len(src.splitlines(True)))
        if not (0 <= line < nlines):
            problem = f'line {line} outside the text ({nlines} lines)'
    if problem is None and src.strip():
        from beanquery import shell
        try:
            shell.render_exception(exc)
        except Exception as e:  # noqa: BLE001
            problem = f'shell.render_exception raised {type(e).__name__}: {e}'
    if problem:
        ctx.violation('c05.invalid_location', f'{text!r}: {problem}', case)


def run_injectors(ctx, conn):
    cases = injector_cases()
    if ctx.shard == 0:
        ctx.count('injectors.total', len(cases))
    for idx, (rule, text, params, expect) in enumerate(cases):
        if not ctx.mine(idx):
            continue
        phase, outcome, exc = attempt(conn, text, params)
        case = {'rule': rule, 'text': text, 'params': repr(params), 'expect': expect}
        ctx.case((text, repr(params)), phase != 'parse')
        ctx.count('injectors.executed')
        ctx.seen('rules', rule)
        if len(ctx.samples) < 3 and phase != 'parse' and idx % 7 == 0:
            ctx.sample({'rule': rule, 'text': text, 'params': repr(params), 'expected': expect, 'observed': f'{phase}: {outcome}'})
        rejected = outcome in ('ParseError', 'CompilationError', 'ProgrammingError')
        if exc is not None and rejected:
            check_location(ctx, exc, text, case)
        if outcome not in ('ok', 'ParseError', 'CompilationError', 'ProgrammingError'):
            if expect == 'reject-or-typeerror' and outcome == 'TypeError':
                ctx.count('obs.parameter_container_typeerror')
                continue
            ctx.violation(classify_unexpected(text, phase, outcome, exc, params),
                          f'[{rule}] {text!r}: {phase} raised {type(exc).__name__}: {exc}', case)
            continue
        if expect == 'accept':
            ctx.count('obs.valid_accepted' if outcome == 'ok' else 'obs.valid_rejected')
            if outcome != 'ok':
                ctx.violation(f'c05.valid_statement_rejected.{rule}', f'[{rule}] valid statement rejected: {text!r}: {exc}', case)
            else:
                # an accepted valid statement must also run
                p2, o2, e2 = attempt(conn, text, params, execute=True)
                if o2 != 'ok':
                    ctx.violation(f'c05.valid_statement_fails_at_execution.{rule}', f'[{rule}] {text!r}: {type(e2).__name__}: {e2}', case)
        elif expect == 'reject':
            ctx.count('obs.invalid_rejected' if rejected else 'obs.invalid_accepted')
            if not rejected:
                p2, o2, e2 = attempt(conn, text, params, execute=True)
                harm = f'; executing it: {o2}' + (f' ({type(e2).__name__}: {e2})' if e2 is not None else '')
                mech = f'c05.invalid_statement_accepted.{rule}'
                if rule == 'operator:in-scalar':
                    mech = 'c05.in_right_operand_not_type_checked'
                elif rule == 'unhashable-group-key' and 'GROUP BY' not in text.upper():
                    mech = 'c05.implicit_group_by_skips_hashable_check'
                ctx.violation(mech, f'[{rule}] statement violating the rule is accepted: {text!r}{harm}', case)
        elif expect == 'reject-or-group':
            if not rejected:
                try:
                    rows = conn.execute(text).fetchall()
                    grouped = conn.execute('SELECT i FROM #t GROUP BY i ORDER BY sum(j)').fetchall()
                    if rows != grouped:
                        ctx.violation('c05.order_by_aggregate_on_non_aggregate_query',
                                      f'{text!r} is accepted but is neither rejected nor treated as a grouped query '
                                      f'({len(rows)} rows vs {len(grouped)} groups)', case)
                except Exception as e:  # noqa: BLE001
                    ctx.violation('c05.order_by_aggregate_on_non_aggregate_query', f'{text!r} accepted, execution raised {e!r}', case)
        elif expect == 'reject-or-typeerror':
            if not rejected:
                ctx.violation(f'c05.invalid_statement_accepted.{rule}', f'[{rule}] accepted: {text!r} params={params!r}', case)


REUSE_CASES = [
    # (text, [(params, expect)...]) : ONE parsed statement object compiled with each parameter set in turn
    ('SELECT i FROM #t WHERE i > %s AND j < %s', [([1, 2], 'accept'), ([1], 'reject'), ([1, 2, 3], 'reject'), ([], 'reject'), ([3, 4], 'accept')]),
    ('SELECT i FROM #t WHERE i > %s', [([1], 'accept'), ([], 'reject'), ([1, 2], 'reject'), ([2], 'accept')]),
    ('SELECT i FROM #t WHERE i > %s AND s ~ %s', [([1, 'a'], 'accept'), (['a', 'a'], 'reject'), ([1, 1], 'reject'), ([2, 'b'], 'accept')]),
    ('SELECT i FROM #t WHERE i > %(a)s AND j < %(b)s', [({'a': 1, 'b': 2}, 'accept'), ({'a': 1}, 'reject'), ({'b': 1}, 'reject'), ({'a': 1, 'b': 2, 'c': 3}, 'accept')]),
    ('SELECT i, count(*) FROM #t GROUP BY 1 HAVING count(*) > %s ORDER BY count(*) + %s, 1', [([0, 1], 'accept'), ([0], 'reject'), ([0, 'x'], 'reject'), ([1, 2], 'accept')]),
    ('SELECT i FROM #t WHERE j IN (SELECT j FROM #t WHERE j > %s) AND i < %s', [([0, 5], 'accept'), ([0], 'reject'), ([0, 5, 6], 'reject')]),
    ('SELECT i FROM #t ORDER BY 3', [(None, 'reject'), (None, 'reject')]),
    ('SELECT i + s FROM #t', [(None, 'reject'), (None, 'reject')]),
    ('SELECT i, s FROM #t GROUP BY i', [(None, 'reject'), (None, 'reject')]),
    ('SELECT i, s, count(*) FROM #t GROUP BY 1, 2 PIVOT BY 1, 2', [(None, 'accept'), (None, 'accept')]),
    ('SELECT date FROM OPEN ON 2020-01-02 CLOSE ON 2020-01-01', [(None, 'reject'), (None, 'reject')]),
    ('BALANCES AT cost FROM year = %s', [([2020], 'accept'), ([], 'reject'), ([2020, 1], 'reject'), ([2021], 'accept')]),
]


def run_reuse(ctx, conn):
    """The verdict on a statement depends on the statement and its parameters only, not on earlier compilations of the same parsed object."""
    from beanquery import compiler
    for text, steps in REUSE_CASES:
        stmt = conn.parse(text)
        for n, (params, expect) in enumerate(steps):
            phase, outcome, exc = attempt(conn, None, params, ast=stmt)
            fresh = attempt(conn, text, params)
            rejected = outcome in ('ParseError', 'CompilationError', 'ProgrammingError')
            case = {'text': text, 'steps': [repr(s_) for s_ in steps], 'step': n}
            ctx.case(('reuse', text, n), True)
            ctx.count('obs.reused_statement_compilations')
            if outcome not in ('ok', 'ParseError', 'CompilationError', 'ProgrammingError'):
                ctx.violation(f'c05.reused_statement.wrong_exception_class.{outcome}',
                              f'{text!r} compiled for the {n + 1}. time with params {params!r}: {type(exc).__name__}: {exc}', case)
                break
            if (expect == 'accept') != (outcome == 'ok') or fresh[1] != outcome:
                ctx.violation('c05.reused_statement.verdict_depends_on_history',
                              f'{text!r} compiled for the {n + 1}. time with params {params!r}: {outcome} (expected {expect}; a fresh parse gives {fresh[1]})', case)
                break


ROBUST_SEEDS = [
    'SELECT 2020-13-45', 'SELECT 0000-01-01', 'SELECT 2021-02-29', 'SELECT date FROM OPEN ON 2020-02-30', 'SELECT 2020-00-10, 1',
    'SELECT date WHERE date > 2020-04-31', 'SELECT i FROM #t LIMIT 9999999999999999999999999999999999999999',
    'SELECT 9999999999999999999999999999999999999999 FROM #t', 'SELECT i FROM #t GROUP BY 9999999999999999999999999999999999999999',
    'SELECT i FROM #t ORDER BY 9999999999999999999999999999999999999999', 'SELECT i, count(*) FROM #t GROUP BY 1 PIVOT BY 1, 9999999999999999999999999999999999999999',
    '', ' ', ';', '/* only a comment */', 'SELECT', 'SELECT ;', 'SELECT "unterminated', "SELECT 'x", 'SELECT /* unterminated', 'SELECT 1 ; comment',
    'SELECT * FROM', 'SELECT * FROM #', 'SELECT * FROM # WHERE', 'BALANCES AT', 'JOURNAL AT FROM', 'PRINT FROM', 'SELECT (', 'SELECT )', 'SELECT ((((((((((1))))))))))',
    'SELECT i FROM #t WHERE', 'SELECT coalesce()', 'SELECT count(*, *)', 'SELECT i[k] FROM #t', 'SELECT i.1 FROM #t', 'SELECT 1.2.3', 'SELECT 1..2',
    'SELECT %', 'SELECT %()s', 'SELECT %(a b)s', 'SELECT %s %s', 'SELECT %d', 'SELECT a AS', 'SELECT a AS select', 'SELECT select', 'SELECT from FROM #t',
    'SELECT i FROM #t PIVOT BY 1', 'SELECT i FROM #t PIVOT BY 1, 2, 3', 'SELECT i FROM #t PIVOT BY i + 1, 2', 'SELECT \x00', 'SELECT "\x00"', 'SELECT é', 'SELECT "é" AS ü',
    'SELECT i FROM #t ORDER BY', 'SELECT i FROM #t GROUP BY', 'SELECT i FROM #t GROUP BY i HAVING', 'SELECT DISTINCT', 'SELECT DISTINCT DISTINCT i',
    'SELECT i FROM #t LIMIT -1', 'SELECT i FROM #t LIMIT 1.5', 'SELECT i FROM #t LIMIT "1"', 'SELECT i FROM (SELECT j FROM #t', 'SELECT i IN () FROM #t',
    'SELECT i IN (1,,) FROM #t', 'SELECT i IN (NULL, 1) FROM #t', 'SELECT NULL + 1', 'SELECT NULL = NULL', 'SELECT -NULL', 'SELECT NULL BETWEEN 1 AND 2',
    'SELECT sum(*) FROM #t', 'SELECT max(*) FROM #t', 'SELECT first(*) FROM #t', 'SELECT upper(*) FROM #t', 'SELECT count(i, j) FROM #t',
    'SELECT date FROM CLOSE ON', 'SELECT date FROM OPEN 2020-01-01', 'SELECT date FROM OPEN ON 2020-01-01 CLOSE ON', 'SELECT date FROM CLEAR CLEAR',
    'SELECT date FROM CLOSE ON 2020-01-01 OPEN ON 2019-01-01', 'SELECT meta[1] FROM #postings', 'SELECT meta[k] FROM #postings', 'SELECT entry.meta.x FROM #postings',
]


def run_robustness(ctx, conn, n):
    rng = ctx.rng('robust', n)
    r = rng.random()
    base = None
    if r < 0.15:
        text = rng.choice(ROBUST_SEEDS)
    elif r < 0.3:
        text = mutate(rng, rng.choice(ROBUST_SEEDS))
    else:
        qg = gen.QueryGen(rng, max_depth=3)
        q = qg.aggregate() if rng.random() < 0.4 else qg.simple()
        if rng.random() < 0.5:
            q.order_by = qg.order_keys(q, aggregate=bool(q.group_by))
        if rng.random() < 0.2:
            q.limit = rng.choice([0, 3, 10 ** 40])
        try:
            base = ir.to_text(q)
        except ValueError:
            return
        rr = rng.random()
        if rr < 0.35:
            text = mutate(rng, base)
            if rng.random() < 0.3:
                text = mutate(rng, text)
        elif rr < 0.6:
            text = base[:rng.randrange(len(base) + 1)]
        elif rr < 0.7:
            # swap a column for one of another type, or for a date that does not exist
            import re
            text = re.sub(r'\b(i|j|d|s|dt|b)\b', lambda m: rng.choice(['i', 's', 'dt', 'b', 'o', 'nosuch', '2020-02-31', '12345678901234567890123456789012345678901']), base, count=rng.randint(1, 2))
        else:
            text = base
    phase, outcome, exc = attempt(conn, text, None, execute=False)
    ctx.case(('robust', text), phase != 'parse')
    ctx.count(f'obs.robust.{phase}.{outcome}')
    if len(ctx.samples) < 5 and n % 11 == 0:
        ctx.sample({'mutated_text': text, 'observed': f'{phase}: {outcome}'})
    case = {'replay': ['robust', n], 'text': text, 'base': base}
    if outcome in ('ParseError', 'CompilationError', 'ProgrammingError'):
        check_location(ctx, exc, text, case)
    elif outcome != 'ok':
        if outcome == 'TypeError' and 'query parameters should be' in str(exc):
            ctx.count('obs.parameter_container_typeerror')     # placeholders without a parameter container
            return
        ctx.violation(classify_unexpected(text, phase, outcome, exc), f'{text!r}: {phase} raised {type(exc).__name__}: {exc}', case)


def run_ast_cases(ctx, conn, n):
    """Hand-built ASTs (no source positions), valid and with injected faults."""
    from beanquery.parser import ast
    rng = ctx.rng('ast', n)
    qg = gen.QueryGen(rng, max_depth=3)
    q = qg.aggregate() if rng.random() < 0.5 else qg.simple()
    alias_all = rng.random() < 0.7
    tree = ir.to_ast(q, alias_all=alias_all)
    fault = rng.choice(['none', 'none', 'column', 'function', 'table', 'group-index', 'order-index', 'limit-type', 'target-none', 'mixed', 'unaliased'])
    if fault == 'column':
        tree.targets.append(ast.Target(ast.Column('nosuch'), 'x'))
    elif fault == 'function':
        tree.targets.append(ast.Target(ast.Function('nosuchfunc', [ast.Column('i')]), 'x'))
    elif fault == 'table':
        tree.from_clause = ast.Table('nosuch')
    elif fault == 'group-index':
        tree.group_by = ast.GroupBy([99], None)
    elif fault == 'order-index':
        tree.order_by = [ast.OrderBy(0, ast.Ordering.ASC)]
    elif fault == 'mixed':
        tree.targets.append(ast.Target(ast.Add(ast.Column('i'), ast.Function('sum', [ast.Column('j')])), 'x'))
    elif fault == 'unaliased':
        tree.targets.append(ast.Target(ast.Add(ast.Column('i'), ast.Constant(1)), None))
    phase, outcome, exc = attempt(conn, None, None, ast=tree)
    ctx.case(('ast', repr(tree)[:300], n), True)
    ctx.count(f'obs.ast.{fault}.{outcome}')
    case = {'replay': ['ast', n], 'fault': fault, 'ast': repr(tree)[:1500]}
    if outcome not in ('ok', 'CompilationError', 'ProgrammingError', 'ParseError'):
        if fault == 'unaliased' or not alias_all:
            mech = 'c05.ast_unaliased_expression_target'
            if not (isinstance(exc, AttributeError) and 'strip' in str(exc)):
                mech = f'c05.wrong_exception_class.ast.{outcome}'
        else:
            mech = f'c05.wrong_exception_class.ast.{outcome}'
        ctx.violation(mech, f'hand-built AST ({fault}): compile raised {type(exc).__name__}: {exc}', case)
    elif fault in ('column', 'function', 'table', 'group-index', 'order-index', 'mixed') and outcome == 'ok':
        ctx.violation(f'c05.invalid_statement_accepted.ast-{fault}', f'hand-built AST with fault {fault} accepted', case)


HISTORY_POOL = [
    'PRINT', 'PRINT FROM year = 2020', 'PRINT FROM nosuch = 1', 'PRINT FROM sum(number) > 1', 'BALANCES', 'BALANCES AT cost FROM year = 2020', 'BALANCES AT nosuch',
    'JOURNAL "Assets"', 'JOURNAL "Assets" AT units FROM flag = "*"', 'JOURNAL AT', 'SELECT account', 'SELECT account, sum(position) GROUP BY account',
    'SELECT account, number WHERE number > 0 ORDER BY balance', 'SELECT type FROM #entries', 'SELECT account FROM #entries', 'SELECT i FROM #t', 'SELECT account FROM #t',
    'SELECT account FROM #accounts', 'SELECT number FROM #accounts', 'SELECT * FROM (SELECT account, number)', 'SELECT nosuch FROM (SELECT account, number)',
    'SELECT account WHERE account IN (SELECT account FROM #accounts)', 'SELECT account WHERE account IN (SELECT nosuch FROM #accounts)', 'SELECT date FROM CLOSE ON 2020-06-01',
    'SELECT date FROM OPEN ON 2021-01-01 CLOSE ON 2020-01-01', 'SELECT currency, name FROM #commodities', 'SELECT name FROM #commodities', 'SELECT weight, position',
    'SELECT i, s FROM #t GROUP BY i', 'SELECT count(*), account', 'SELECT %s', 'SELECT account WHERE number > %s', 'SELECT', 'SELECT 2020-02-30',
]


def run_history(ctx, n):
    """Verdicts do not depend on what the connection compiled or executed before: a series of statements of every kind
    (accepted and refused, over every table, compile only or executed) on one connection; each verdict equals the verdict of
    the same statement on a new connection."""
    rng = ctx.rng('history', n)
    led = ledgers.gen_ledger(rng, ntxn=5)
    mt = gen.gen_table(rng, 't', max_rows=5)
    conn = engine.connection([mt], ledger=led.loaded)
    history = []
    for _ in range(rng.randint(4, 12)):
        text = rng.choice(HISTORY_POOL)
        execute = rng.random() < 0.5
        params = [1] if '%s' in text else None          # (a missing parameter container is a TypeError by design: not probed here)
        got = attempt(conn, text, params, execute=execute)
        exp = attempt(engine.connection([mt], ledger=led.loaded), text, params, execute=execute)
        history.append(text)
        ctx.count('obs.history_statements')
        ctx.case(('history', tuple(history), execute), len(history) >= 2)
        case = {'replay': ['history', n], 'history': list(history), 'text': text}
        if got[1] not in ('ok', 'ParseError', 'CompilationError', 'ProgrammingError'):
            ctx.violation(f'c05.history.wrong_exception_class.{got[1]}', f'{text!r} after {history[:-1]}: {type(got[2]).__name__}: {got[2]}', case)
            return
        if (got[0], got[1]) != (exp[0], exp[1]):
            ctx.violation('c05.verdict_depends_on_history', f'{text!r} after {history[:-1]}: {got[0]}: {got[1]} ({got[2]}); on a new connection {exp[0]}: {exp[1]}', case)
            return


def make_conn(rng):
    led = ledgers.gen_ledger(rng, ntxn=6)
    mt = gen.gen_table(rng, 't', max_rows=6)
    conn = engine.connection([mt], ledger=led.loaded)
    # a list-backed table (it has a length) that holds no row: an existing table all the same
    from beanquery import tables as _tables
    base = engine.harness_table(model.ModelTable('nostock', [('i', T_INT), ('s', T_STR)], []))

    class ListTable(_tables.Table):
        name = 'nostock'
        columns = base.columns

        def __init__(self):
            self.rows = []

        def __len__(self):
            return len(self.rows)

        def __iter__(self):
            return iter(self.rows)
    conn.tables['nostock'] = ListTable()
    return conn


def run(ctx):
    engine.bq()
    conn = make_conn(ctx.rng('conn'))
    run_injectors(ctx, conn)
    if ctx.shard % 4 == 0:
        run_reuse(ctx, conn)
    for n in range(ctx.pick(150, 6000)):
        if ctx.out_of_time():
            break
        run_robustness(ctx, conn, n)
    for n in range(ctx.pick(150, 4000)):
        if ctx.out_of_time():
            break
        run_ast_cases(ctx, conn, n)
    for n in range(ctx.pick(25, 600)):
        if ctx.out_of_time():
            break
        run_history(ctx, n)


def replay(ctx, case):
    engine.bq()
    conn = make_conn(ctx.rng('conn'))
    if case and 'replay' in case:
        part, n = case['replay']
        if part == 'history':
            run_history(ctx, n)
            return
        (run_robustness if part == 'robust' else run_ast_cases)(ctx, conn, n)
    elif case:
        print(attempt(conn, case['text'], eval(case['params']) if case.get('params') else None, execute=True))


def finalize(merged):
    c = merged['counters']
    reasons = []
    if c.get('injectors.executed', 0) < c.get('injectors.total', 1):
        reasons.append('injector list not completely executed')
    if c.get('obs.reused_statement_compilations', 0) == 0:
        reasons.append('no re-used parsed statement compiled')
    if c.get('obs.history_statements', 0) == 0:
        reasons.append('no connection history compiled')
    if c.get('obs.locations_validated', 0) == 0:
        reasons.append('no error location validated')
    if c.get('obs.valid_accepted', 0) == 0 or c.get('obs.invalid_rejected', 0) == 0:
        reasons.append('oracle did not observe both accepted valid and rejected invalid statements')
    merged['extra']['rules_covered'] = sorted(merged['sets'].get('rules', ()))
    return reasons

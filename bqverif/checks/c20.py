"""C20 — thread isolation: concurrent queries give the same results as serial execution.

M7 deterministic scheduler: real threads run real Connection.execute() calls; exactly
one thread holds the run token; scheduling points are the node evaluations of the
engine (M2 hook), in the thorough tier also every source line of beanquery
(sys.monitoring LINE events). Policies: exhaustive enumeration of all schedules with
one pre-emption (bound 2 in the thorough tier) and PCT-style random schedules.
Oracles: every thread's rows and description equal the statement's serial result
(recorded before and after the concurrent phase); no exception that does not occur
serially; M4 running-balance monitor (a posting added twice within one row).
"""
import sys
from decimal import Decimal
import threading
import time

from .. import engine, ledgers, monitors
from ..values import show_rows

ID = 'C20'
LEVEL = 'exploration'
EXHAUSTIVE = True
RULE = ('Pairs (thorough: also triples) of statements drawn from: balance referenced 2-3 times per row with other columns in between, '
        'aggregates with several accumulators, FROM and IN sub-queries, parameterised statements, the same parsed statement object '
        'executed by two threads, OPEN/CLOSE/CLEAR statements, BALANCES/JOURNAL, PRINT; on one shared connection, on separate '
        'connections over the same entries and over different ledgers. For each pair: the two zero-pre-emption schedules, all '
        'schedules with exactly one pre-emption at a node-evaluation point (exhaustive; capped per pair in the quick tier by a '
        'stride), bound-2 and line-granular schedules in the thorough tier, plus seeded random-priority schedules; finally an '
        'un-scheduled stress phase with 8 free-running threads. A schedule is distinct by its recorded context-switch sequence; '
        'non-trivial when it contains at least one pre-emption.')
ASSUMPTIONS = ['bounded pre-emption: an interference needing three or more precisely placed pre-emptions in a large workload can escape',
               'CPython threads can be pre-empted between any two bytecodes, so every node-evaluation or line boundary is a legitimate switch point']

STUCK_S = 30
FORCE_S = 3        # no scheduling point for this long while other threads are parked: hand the token on
BLOCKED_S = 15     # the only thread left makes no progress for this long: blocked for good


class Stuck(Exception):
    pass


class Poisoned(Exception):
    """A thread is blocked for good inside the engine: the process cannot be used for further schedules."""


class Scheduler:
    """Token passing between worker threads at scheduling points."""

    def __init__(self, n, segments=None, rng=None, p_switch=0.0):
        self.n = n
        self.sems = [threading.Semaphore(0) for _ in range(n)]
        self.done = [False] * n
        self.ident = {}
        self.segments = list(segments or [])     # [(thread, points or None)]
        self.seg_left = None
        self.current = None
        self.rng = rng
        self.p_switch = p_switch
        self.trace = []            # (thread, label) per point
        self.switches = []         # (global step, from, to)
        self.steps = 0
        self.stuck = False
        self.blocked = False
        self.forced = []           # switches forced by the progress watchdog
        self.lock = threading.Lock()

    # -- called by the harness
    def start(self):
        first = self._next_segment_thread(None)
        self.current = first
        self.sems[first].release()

    def _next_segment_thread(self, cur):
        while self.segments:
            t, cnt = self.segments[0]
            if self.done[t]:
                self.segments.pop(0)
                continue
            self.seg_left = cnt
            self.segments.pop(0)
            return t
        self.seg_left = None
        # no more segments: any thread that is not finished, preferring the current one
        if cur is not None and not self.done[cur]:
            return cur
        for t in range(self.n):
            if not self.done[t]:
                return t
        return None

    # -- called in worker threads
    def wait_turn(self, tid):
        if not self.sems[tid].acquire(timeout=STUCK_S):
            self.stuck = True
            raise Stuck(f'thread {tid} never got the token')

    def point(self, tid, label):
        self.steps += 1
        self.trace.append((tid, label))
        switch_to = None
        if self.seg_left is not None:
            self.seg_left -= 1
            if self.seg_left <= 0:
                switch_to = self._next_segment_thread(tid)
        elif self.rng is not None and self.rng.random() < self.p_switch:
            others = [t for t in range(self.n) if not self.done[t] and t != tid]
            if others:
                switch_to = self.rng.choice(others)
        if switch_to is not None and switch_to != tid:
            self.switches.append((self.steps, tid, switch_to))
            self.current = switch_to
            self.sems[switch_to].release()
            self.wait_turn(tid)

    def finish(self, tid):
        self.done[tid] = True
        nxt = self._next_segment_thread(None)
        if nxt is not None:
            self.switches.append((self.steps, tid, nxt))
            self.current = nxt
            self.sems[nxt].release()


def outcome_of(fn):
    try:
        return ('ok', fn())
    except Stuck:
        raise
    except Exception as exc:  # noqa: BLE001
        return ('exc', type(exc).__name__, str(exc)[:200])


def run_schedule(jobs, segments=None, rng=None, p_switch=0.0, line_points=False):
    """jobs: list of callables. -> (outcomes, scheduler)"""
    mon = monitors.MON
    n = len(jobs)
    sched = Scheduler(n, segments, rng, p_switch)
    results = [None] * n
    tids = {}

    def hook(node):
        tid = tids.get(threading.get_ident())
        if tid is not None:
            sched.point(tid, type(node).__name__)

    def worker(i):
        tids[threading.get_ident()] = i
        try:
            sched.wait_turn(i)
            results[i] = outcome_of(jobs[i])
        except Stuck:
            results[i] = ('stuck',)
        finally:
            sched.finish(i)

    mon.reset()
    mon.point_hook = hook
    tool = None
    if line_points:
        tool = install_line_points(sched, tids)
    threads = [threading.Thread(target=worker, args=(i,), daemon=True) for i in range(n)]
    try:
        for t in threads:
            t.start()
        sched.start()
        # progress watchdog: the thread holding the token may block inside the engine (a lock). If threads are parked at
        # scheduling points, one of them may be the holder of that lock: it gets the token (a forced switch). If every other
        # thread has finished and the one left makes no progress for BLOCKED_S, it is blocked for good.
        last = (-1, -1)
        since = since_force = time.monotonic()
        forced_round = 0
        while any(t.is_alive() for t in threads):
            for t in threads:
                t.join(0.05)
            now = (sched.steps, sum(sched.done))
            if now != last:
                last, since, forced_round = now, time.monotonic(), 0
                since_force = since
                continue
            idle = time.monotonic() - since
            others = [i for i in range(n) if not sched.done[i] and i != sched.current]
            if idle <= BLOCKED_S and others and time.monotonic() - since_force > FORCE_S and forced_round < len(others) + 1:
                # hand the token to each of the other threads once: one of them may hold what the current one waits for
                nxt = others[forced_round % len(others)]
                forced_round += 1
                sched.forced.append((sched.steps, sched.current, nxt))
                sched.current = nxt
                sched.sems[nxt].release()
                since_force = time.monotonic()
            elif idle > BLOCKED_S:
                # nobody has passed a scheduling point or finished for BLOCKED_S although every thread has had the token
                blocked = [i for i in range(n) if not sched.done[i]]
                frames = sys._current_frames()
                import traceback
                for i in blocked:
                    ident = next((k for k, v in tids.items() if v == i), None)
                    stack = ''.join(traceback.format_stack(frames[ident])[-6:]) if ident in frames else ''
                    results[i] = ('blocked', stack)
                sched.blocked = True
                break
    finally:
        mon.point_hook = None
        if tool is not None:
            uninstall_line_points(tool)
    if any(t.is_alive() for t in threads) or sched.stuck:
        sched.stuck = True
    return results, sched


def install_line_points(sched, tids):
    import os
    mon = sys.monitoring
    tool = mon.DEBUGGER_ID
    try:
        mon.use_tool_id(tool, 'bqverif-c20')
    except ValueError:
        return None
    import beanquery
    root = os.path.dirname(beanquery.__file__)

    def on_line(code, lineno):
        if not code.co_filename.startswith(root):
            return mon.DISABLE
        tid = tids.get(threading.get_ident())
        if tid is not None:
            sched.point(tid, f'L{lineno}')
    mon.register_callback(tool, mon.events.LINE, on_line)
    mon.set_events(tool, mon.events.LINE)
    return tool


def uninstall_line_points(tool):
    mon = sys.monitoring
    mon.set_events(tool, 0)
    mon.register_callback(tool, mon.events.LINE, None)
    mon.free_tool_id(tool)
    mon.restart_events()


def balance_interference(trace):
    """Rows in which two balance evaluations of one thread were separated by another thread's balance evaluation."""
    count = 0
    last = {}
    between = {}
    for tid, label in trace:
        if label != 'balance':
            continue
        for other in between:
            if other != tid:
                between[other] = True
        if tid in last and between.get(tid):
            count += 1
        last[tid] = True
        between[tid] = False
    return count


# ---------------------------------------------------------------------------
# workloads

STATEMENTS = {
    'bal2': ('SELECT balance, year, balance FROM #postings WHERE year >= 2019', None),
    'bal3': ('SELECT balance, account, balance, number, balance FROM #postings', None),
    'bal1': ('SELECT account, balance FROM #postings WHERE account ~ "Assets"', None),
    'units-bal': ('SELECT units(balance) AS u, position, cost(balance) AS c FROM #postings WHERE year = 2020', None),
    'agg': ('SELECT account, sum(position) AS s, count(*) AS n, first(date) AS f, last(narration) AS l, min(number) AS mn, max(number) AS mx GROUP BY account ORDER BY account', None),
    'agg-year': ('SELECT year, month, sum(cost(position)) AS c, count(number) AS n GROUP BY year, month ORDER BY 1, 2', None),
    'subq-from': ('SELECT a, sum(n) AS t FROM (SELECT account AS a, number AS n, balance AS b FROM #postings WHERE number > 0) GROUP BY a ORDER BY a', None),
    'subq-from2': ('SELECT d, m, a FROM (SELECT date AS d, number AS m, account AS a, year AS n FROM #postings WHERE number < 0) WHERE a ~ "Assets|Income" AND n > 2000 ORDER BY d, m, a', None),
    'subq-from3': ('SELECT n, a FROM (SELECT a, n FROM (SELECT account AS n, number AS a FROM #postings WHERE number > 0)) ORDER BY n, a', None),
    'subq-in': ('SELECT date, account, balance WHERE account IN (SELECT account FROM #postings WHERE NOT empty(balance) AND number > 50) ORDER BY date, account', None),
    'param-a': ('SELECT date, account, number WHERE number > %s AND currency = %s ORDER BY date, account, number', [10, 'USD']),
    'param-b': ('SELECT date, account, number WHERE number > %s AND currency = %s ORDER BY date, account, number', [1000, 'EUR']),
    'named': ('SELECT account, count(*) AS n WHERE account ~ %(pat)s AND year = %(y)s GROUP BY account ORDER BY account', {'pat': 'Expenses', 'y': 2020}),
    'open-close': ('SELECT account, sum(position) AS s FROM OPEN ON 2019-07-01 CLOSE ON 2020-07-01 CLEAR GROUP BY account ORDER BY account', None),
    'close': ('SELECT account, balance FROM CLOSE ON 2020-03-01 WHERE account ~ "Assets"', None),
    'div': ('SELECT date, account, number / 3 AS q, number / 7 * 1.0000000000000000001 AS w, safediv(number, 9) AS z WHERE number != 0', None),
    'div-agg': ('SELECT account, sum(number) / 7 AS s, sum(number / 3) AS t, count(*) AS n GROUP BY account ORDER BY account', None),
    'ctx-funcs': ('SELECT account, convert(position, "USD") AS c, value(position) AS v, getprice(currency, "USD") AS p, account_sortkey(account) AS k, '
                  'possign(number, account) AS g, open_date(account) AS o, currency_meta(currency, "name") AS m ORDER BY date, account, number', None),
    'ctx-dated': ('SELECT date, account, getprice(currency, "USD", date) AS p, convert(position, "USD", date) AS c, value(position, date) AS v, '
                  'getprice(currency, "USD") AS l, currency_meta(currency, "name") AS m, open_meta(account, "note") AS o WHERE currency != "USD"', None),
    'ctx-agg': ('SELECT account_sortkey(account) AS k, convert(sum(position), "USD") AS c, value(sum(position)) AS v GROUP BY 1 ORDER BY 1', None),
    # statements that are refused, or that raise part-way through: the other thread is not to notice
    'bad-params': ('SELECT date WHERE account ~ %(acc)s AND number > %(num)s', {'acc': 'Assets'}),
    'bad-params2': ('SELECT date, account, number WHERE number > %s AND currency = %s ORDER BY date, account, number', [10]),
    'bad-column': ('SELECT nosuch, account', None),
    'runtime-fail': ('SELECT balance, date_add(date, 99999999 * (year - 2018)) AS x', None),
    'prices': ('SELECT date, currency, amount FROM #prices ORDER BY date, currency', None),
    'prices-agg': ('SELECT currency, count(*) AS n, max(date) AS last FROM #prices GROUP BY currency ORDER BY currency', None),
    'txns': ('SELECT date, flag, narration FROM #transactions WHERE flag = "*" ORDER BY date, narration', None),
    'notes-events': ('SELECT type, description FROM #events ORDER BY 1, 2', None),
    'accounts': ('SELECT account, open_date(account) AS o FROM #accounts ORDER BY account', None),
    'open-close-rows': ('SELECT date, narration, account, position, balance FROM OPEN ON 2019-07-01 CLOSE ON 2020-07-01 CLEAR', None),
    'close-count': ('SELECT year, count(*) AS n, sum(position) AS s FROM CLOSE ON 2020-03-01 GROUP BY year ORDER BY year', None),
    'balances': ('BALANCES AT cost FROM year = 2020', None),
    'journal': ('JOURNAL "Cash"', None),
    'journal-cost': ('JOURNAL "Expenses|Assets" AT cost', None),
    'distinct': ('SELECT DISTINCT payee, flag ORDER BY payee, flag', None),
    'entries': ('SELECT type, count(*) AS n FROM #entries GROUP BY type ORDER BY type', None),
    'pivot': ('SELECT account, year, sum(position) AS s GROUP BY 1, 2 PIVOT BY 1, 2', None),
}
PAIRS = [('bal2', 'bal1'), ('bal2', 'bal3'), ('bal3', 'subq-in'), ('units-bal', 'journal'), ('agg', 'agg-year'), ('agg', 'agg'), ('subq-from', 'subq-in'),
         ('param-a', 'param-b'), ('named', 'param-a'), ('open-close', 'close'), ('open-close', 'bal2'), ('balances', 'journal'), ('distinct', 'entries'),
         ('pivot', 'agg'), ('bal2', 'bal2'), ('close', 'bal1'), ('open-close', 'open-close-rows'), ('close', 'close-count'), ('open-close', 'open-close'), ('div', 'div-agg'), ('div-agg', 'bal2'),
         ('subq-from', 'subq-from2'), ('subq-from2', 'subq-from3'), ('ctx-funcs', 'ctx-funcs'), ('ctx-funcs', 'ctx-agg'), ('balances', 'balances'), ('ctx-dated', 'ctx-dated'), ('ctx-dated', 'ctx-funcs'),
         ('journal', 'journal'), ('journal', 'journal-cost'), ('prices', 'prices-agg'), ('txns', 'txns'), ('notes-events', 'prices'), ('accounts', 'ctx-funcs'),
         ('bad-params', 'param-b'), ('bad-params2', 'named'), ('runtime-fail', 'bal2'), ('bad-column', 'agg'), ('bad-params', 'bad-params2')]


def make_job(conn, text_or_ast, params):
    def job():
        cur = conn.execute(text_or_ast, params)
        desc = cur.description
        return [(d.name, d.datatype) for d in desc], cur.fetchall()
    return job


def print_job(conn, text):
    def job():
        import io
        from beanquery import compiler, query_execute
        out = io.StringIO()
        query_execute.execute_print(compiler.compile(conn, conn.parse(text)), out)
        return [('print', str)], [(out.getvalue(),)]
    return job


def same_outcome(a, b):
    if a is None or b is None or a[0] != b[0]:
        return False
    if a[0] == 'ok':
        return a[1] == b[1]
    return a[1] == b[1]


class _Jobs:
    """The jobs of a pair: alternately on connections opened for this schedule alone ("cold": first use happens under the
    schedule) and on connections that have already served earlier schedules ("warm")."""

    def __init__(self, make_jobs, ctx):
        self.make_jobs = make_jobs
        self.warm = make_jobs()
        self.n = 0
        self.ctx = ctx

    def __len__(self):
        return len(self.warm)

    def next(self):
        self.n += 1
        if self.n % 2:
            self.ctx.count('obs.schedules_on_new_connections')
            return self.make_jobs()
        return self.warm


def check_schedule(ctx, jobs, serial, segments, rng, p_switch, label, case, line_points=False):
    if isinstance(jobs, _Jobs):
        jobs = jobs.next()
    results, sched = run_schedule(jobs, segments, rng, p_switch, line_points)
    mon = monitors.MON
    ctx.count('obs.schedules_executed')
    ctx.count('obs.scheduling_points', sched.steps)
    ctx.count('obs.context_switches', len(sched.switches))
    inter = balance_interference(sched.trace)
    ctx.count('obs.rows_with_interleaved_balance_evaluations', inter)
    preemptions = sum(1 for s in sched.switches) - (len(jobs) - 1)
    sig = (label, tuple(sched.switches))
    ctx.case(sig, preemptions >= 1)
    ctx.count('obs.forced_switches', len(sched.forced))
    if sched.blocked:
        i = next(k for k, r in enumerate(results) if r and r[0] == 'blocked')
        ctx.violation('c20.thread_blocked_forever', f'{label}: thread {i} (and every other unfinished thread, each given the token in turn) made no progress for {BLOCKED_S} s '
                      f'(serially it returns at once); it is waiting in:\n{results[i][1]}', dict(case, schedule={'segments': segments, 'switches': sched.switches[:40]}))
        raise Poisoned(label)
    if sched.stuck or any(r == ('stuck',) for r in results):
        ctx.count('inconclusive.scheduler_stuck')
        ctx.notes.append(f'scheduler stuck on {label}')
        return sched
    case = dict(case, schedule={'segments': segments, 'switches': sched.switches[:40], 'points': sched.steps})
    if mon.balance_violations:
        ctx.violation('c20.balance_added_twice_in_a_row', f'{label}: {mon.balance_violations[0]} under schedule with switches {sched.switches[:6]}', case)
        return sched
    for i, (r, s) in enumerate(zip(results, serial)):
        if not same_outcome(r, s):
            if r[0] == 'exc':
                ctx.violation(f'c20.exception_under_interleaving.{r[1]}', f'{label}: thread {i} raised {r[1]}: {r[2]} ; serially it returns {len(s[1][1]) if s[0] == "ok" else s}', case)
            else:
                ctx.violation('c20.result_differs_from_serial', f'{label}: thread {i} result differs from its serial result under schedule with switches {sched.switches[:6]}: '
                              f'{show_rows(r[1][1], 3) if r[0] == "ok" else r} vs {show_rows(s[1][1], 3) if s[0] == "ok" else s}', case)
            return sched
    return sched


def twin_text(text):
    """The same ledger -- same dates, accounts, postings, hence the same rows in the same order -- with every price five times
    as high and other commodity and account metadata: whatever a function keeps between two calls under a key that leaves the
    connection out (a commodity pair and a date, a currency, an account name) collides between the two ledgers."""
    import re
    def price(m):
        return f'{m.group(1)}{Decimal(m.group(2)) * 5}{m.group(3)}'
    out = re.sub(r'(?m)^(\d{4}-\d\d-\d\d price \S+\s+)([0-9.]+)( \S+)$', price, text)
    out = out.replace(' name"', ' other name"').replace('note: "some text"', 'note: "another text"')
    return out


def build_pair(ctx, rng, pi, mode):
    """-> (make_jobs, label, case) for pair index pi in connection mode 'shared' | 'separate' | 'different'.
    make_jobs() opens NEW connections: whatever a connection derives lazily on first use (period views, caches) is then
    derived inside the schedule, by whichever thread gets there first."""
    a, b = PAIRS[pi % len(PAIRS)]
    led = ledgers.gen_ledger(rng, ntxn=rng.randint(3, ctx.pick(5, 8)), with_queries=False)
    if mode == 'twin':
        # enough postings in other currencies than USD, lots and prices for the look-ups to have something to find
        led = ledgers.gen_ledger(rng, ntxn=rng.randint(10, 14), with_queries=False, exotic=rng.random() < 0.7)
    if 'journal' in a or 'journal' in b:
        # texts longer than the widths JOURNAL shortens them to (payee 48, narration 80), so that the width in force matters
        extra = ''.join(f'2020-0{m}-1{m} * "{"Consolidated Amalgamated International Hardware and Garden Supplies Ltd " * w}" "{"a narration well beyond eighty characters " * 3}{m}"\n'
                        f'  Assets:Cash  -{m}.00 USD\n  Expenses:Food  {m}.00 USD\n' for m, w in ((1, 1), (2, 2), (3, 1)))
        led = ledgers.Ledger(led.text + extra)
    led2 = ledgers.gen_ledger(rng, ntxn=rng.randint(3, 6), with_queries=False, renamed_roots=rng.random() < 0.5) if mode == 'different' else None
    if mode == 'twin':
        led2 = ledgers.Ledger(twin_text(led.text))
    (ta, pa), (tb, pb) = STATEMENTS[a], STATEMENTS[b]
    shared_ast = a.startswith('param') and b.startswith('param') and mode == 'shared' and rng.random() < 0.7

    def make_jobs():
        conn1 = engine.connection(ledger=led.loaded)
        if mode == 'shared':
            conn2 = conn1
        elif mode == 'separate':
            conn2 = engine.connection(ledger=led.loaded)
        else:
            conn2 = engine.connection(ledger=led2.loaded)
        sa, sb = ta, tb
        if shared_ast:
            # the same parsed statement object executed by both threads
            sa = sb = conn1.parse(ta)
        return [make_job(conn1, sa, pa), make_job(conn2, sb, pb)]
    label = f'{a}||{b}/{mode}' + ('/shared-ast' if shared_ast else '')
    case = {'pair': [a, b], 'mode': mode, 'statements': [ta, tb], 'params': [repr(pa), repr(pb)], 'ledger': led.text}
    return make_jobs, label, case


def explore_pair(ctx, pi, mode):
    rng = ctx.rng('pair', pi, mode)
    make_jobs, label, case = build_pair(ctx, rng, pi, mode)
    case['replay'] = ['pair', pi, mode]
    # serial reference: every statement alone on a connection of its own
    serial = []
    for i in range(2):
        serial.append(outcome_of(make_jobs()[i]))
    jobs = _Jobs(make_jobs, ctx)
    # zero pre-emption schedules, both orders; they also count the points of each thread
    s01 = check_schedule(ctx, jobs, serial, [(0, None), (1, None)], None, 0, label, case)
    s10 = check_schedule(ctx, jobs, serial, [(1, None), (0, None)], None, 0, label, case)
    p0 = sum(1 for t, _ in s01.trace if t == 0)
    p1 = sum(1 for t, _ in s01.trace if t == 1)
    ctx.seen('pairs', label)
    ctx.count('obs.pairs')
    # all schedules with exactly one pre-emption (stride-capped in the quick tier)
    cap = ctx.pick(40, 10 ** 9)
    for first, pts in ((0, p0), (1, p1)):
        stride = max(1, pts // cap)
        for k in range(1, pts, stride):
            if ctx.out_of_time():
                return
            check_schedule(ctx, jobs, serial, [(first, k), (1 - first, None), (first, None)], None, 0, label, case)
            ctx.count('obs.one_preemption_schedules')
        ctx.counters['obs.one_preemption_complete'] += 1 if stride == 1 else 0
    # bound 2 (thorough): pre-empt 0 at k, run 1 for j points, back to 0
    if not ctx.quick:
        for k in range(1, p0, max(1, p0 // 25)):
            for j in range(1, p1, max(1, p1 // 25)):
                if ctx.out_of_time():
                    return
                check_schedule(ctx, jobs, serial, [(0, k), (1, j), (0, None), (1, None)], None, 0, label, case)
                ctx.count('obs.two_preemption_schedules')
    # random priority-change schedules
    for r in range(ctx.pick(6, 40)):
        srng = ctx.rng('pct', pi, mode, r)
        check_schedule(ctx, jobs, serial, None, srng, srng.choice([0.02, 0.1, 0.3]), label, case)
        ctx.count('obs.random_schedules')
    # line-granular points (thorough: every pair; quick: the pairs whose statements shorten texts -- the state a function keeps
    # between two of its own lines is out of reach of the node-level points)
    fine = any(x in label for x in ('journal', 'balances', 'prices', 'txns', 'notes-events', 'accounts'))
    if (not ctx.quick or fine) and hasattr(sys, 'monitoring'):
        for r in range(6 if not ctx.quick else 14):
            srng = ctx.rng('line', pi, mode, r)
            check_schedule(ctx, jobs, serial, None, srng, srng.choice([0.005, 0.02]), label + '/lines', case, line_points=True)
            ctx.count('obs.line_granular_schedules')
    # the serial results are unchanged after the concurrent phase
    after = [outcome_of(j) for j in jobs.warm]
    if any(not same_outcome(x, y) for x, y in zip(serial, after)):
        ctx.violation('c20.serial_result_changed', f'{label}: serial results before and after the concurrent phase differ', case)
    if len(ctx.samples) < 3:
        ctx.sample({'pair': label, 'points_thread0': p0, 'points_thread1': p1, 'statements': case['statements'],
                    'example_schedule_switches': s01.switches[:4]})


def stress(ctx):
    """Un-scheduled phase: 8 free-running threads with a tiny switch interval; only M4 and result comparison decide.
    Half of the rounds run on a connection opened for that round (nothing derived yet), half on one long-lived connection."""
    rng = ctx.rng('stress')
    led = ledgers.gen_ledger(rng, ntxn=12, with_queries=False)
    names = ['bal2', 'bal3', 'agg', 'subq-in', 'param-a', 'open-close', 'journal', 'units-bal', 'open-close-rows', 'close', 'close-count', 'open-close', 'div', 'div-agg']
    serial = [outcome_of(make_job(engine.connection(ledger=led.loaded), *STATEMENTS[n])) for n in names]
    long_lived = engine.connection(ledger=led.loaded)
    old = sys.getswitchinterval()
    sys.setswitchinterval(1e-6)
    mon = monitors.MON
    mon.reset()
    problems = []
    rounds = ctx.pick(12, 150)
    try:
        for rnd in range(rounds):
            conn = long_lived if rnd % 2 else engine.connection(ledger=led.loaded)
            jobs = [make_job(conn, *STATEMENTS[n]) for n in names]
            barrier = threading.Barrier(len(jobs))

            def worker(i, jobs=jobs, barrier=barrier):
                try:
                    barrier.wait(30)
                except threading.BrokenBarrierError:
                    return
                r = outcome_of(jobs[i])
                if not same_outcome(r, serial[i]):
                    problems.append((i, r))
            threads = [threading.Thread(target=worker, args=(i,), daemon=True) for i in range(len(jobs))]
            for t in threads:
                t.start()
            for t in threads:
                t.join(120)
            if problems:
                break
    finally:
        sys.setswitchinterval(old)
    ctx.count('obs.stress_statements', len(names) * rounds)
    case = {'statements': [STATEMENTS[n][0] for n in names], 'ledger': led.text}
    if mon.balance_violations:
        ctx.violation('c20.balance_added_twice_in_a_row', f'stress phase: {mon.balance_violations[0]}', case)
    elif problems:
        i, r = problems[0]
        ctx.violation('c20.result_differs_from_serial', f'stress phase: thread {i} ({names[i]}) differs from its serial result', case)


def print_pair(ctx):
    rng = ctx.rng('print')
    led = ledgers.gen_ledger(rng, ntxn=5, with_queries=False)
    conn = engine.connection(ledger=led.loaded)
    jobs = [print_job(conn, 'PRINT FROM year >= 2019 CLOSE'), make_job(conn, *STATEMENTS['bal2'])]
    serial = [outcome_of(j) for j in jobs]
    case = {'pair': ['print', 'bal2'], 'ledger': led.text}
    s = check_schedule(ctx, jobs, serial, [(0, None), (1, None)], None, 0, 'print||bal2', case)
    p0 = sum(1 for t, _ in s.trace if t == 0)
    for k in range(1, max(p0, 2), max(1, p0 // 20)):
        check_schedule(ctx, jobs, serial, [(0, k), (1, None), (0, None)], None, 0, 'print||bal2', case)
    for r in range(5):
        srng = ctx.rng('print-pct', r)
        check_schedule(ctx, jobs, serial, None, srng, 0.1, 'print||bal2', case)


def triple(ctx, n):
    rng = ctx.rng('triple', n)
    led = ledgers.gen_ledger(rng, ntxn=5, with_queries=False)
    conn = engine.connection(ledger=led.loaded)
    names = rng.sample(sorted(STATEMENTS), 3)
    jobs = [make_job(conn, *STATEMENTS[x]) for x in names]
    serial = [outcome_of(j) for j in jobs]
    case = {'triple': names, 'ledger': led.text}
    for r in range(20):
        srng = ctx.rng('triple-pct', n, r)
        check_schedule(ctx, jobs, serial, None, srng, srng.choice([0.05, 0.2]), '||'.join(names), case)
        ctx.count('obs.triple_schedules')


def run(ctx):
    try:
        _run(ctx)
    except Poisoned as exc:
        ctx.notes.append(f'exploration stopped after a thread blocked for good ({exc})')


def _run(ctx):
    monitors.install()
    engine.bq()
    import beanquery
    level = getattr(beanquery, 'threadsafety', None)
    if level != 2:
        ctx.notes.append(f'module advertises threadsafety {level}')
        if ctx.shard == 0:
            ctx.violation('c20.threadsafety_level_not_advertised', f'beanquery.threadsafety is {level!r}: the module does not advertise DB-API thread safety level 2',
                          {'replay': ['pair', 0, 'shared'], 'observed': repr(level)})
    if ctx.shard == 0:
        ctx.count('obs.declared_threadsafety', level if isinstance(level, int) else -1)
    modes = ['shared', 'separate', 'different']
    work = [(pi, m) for pi in range(len(PAIRS)) for m in modes]
    # the twin ledger for the pairs whose statements consult per-connection look-up structures (prices, commodities, accounts)
    work += [(pi, 'twin') for pi in range(len(PAIRS)) if any(x.startswith(('ctx-', 'accounts', 'balances', 'journal-cost')) for x in PAIRS[pi])]
    for idx, (pi, m) in enumerate(work):
        if not ctx.mine(idx):
            continue
        if ctx.out_of_time():
            break
        if ctx.quick and m not in ('shared', 'twin') and pi % 4 and not PAIRS[pi][0].startswith(('ctx-', 'balances', 'journal')):
            continue
        explore_pair(ctx, pi, m)
    if ctx.shard == 0:
        print_pair(ctx)
        stress(ctx)
    if not ctx.quick:
        for n in range(4):
            triple(ctx, n * ctx.nshards + ctx.shard)


def replay(ctx, case):
    monitors.install()
    engine.bq()
    if case and 'replay' in case:
        _, pi, mode = case['replay']
        explore_pair(ctx, pi, mode)


def finalize(merged):
    c = merged['counters']
    reasons = []
    if c.get('inconclusive.scheduler_stuck', 0):
        reasons.append(f"scheduler watchdog fired {c['inconclusive.scheduler_stuck']} time(s)")
    for k in ('obs.schedules_executed', 'obs.schedules_on_new_connections', 'obs.one_preemption_schedules', 'obs.random_schedules', 'obs.context_switches', 'obs.stress_statements'):
        if c.get(k, 0) == 0:
            reasons.append(f'{k} == 0')
    if c.get('obs.rows_with_interleaved_balance_evaluations', 0) == 0:
        reasons.append('no row in which two balance evaluations of one thread were separated by another thread\'s balance evaluation')
    merged['extra']['distinct_schedules'] = len(merged['digests'])
    # exhaustive only when EVERY explored pair had all its one-pre-emption schedules enumerated (no stride cap)
    merged['extra']['exhaustive'] = c.get('obs.pairs', 0) > 0 and c.get('obs.one_preemption_complete', 0) >= 2 * c.get('obs.pairs', 0)
    merged['extra']['pairs_with_complete_one_preemption_enumeration'] = c.get('obs.one_preemption_complete', 0) // 2
    return reasons

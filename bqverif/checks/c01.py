"""C01 — row-level evaluation, WHERE filtering, NULL semantics.

Oracle: R2∘R1 reference model on the same table and statement; M2 monitors
(dtype conformance of every node, AND/OR operand evaluation traces); row
permutation / single-row metamorphic relation.
"""
import itertools
from decimal import InvalidOperation
import re as _re

import re

from .. import engine, gen, ir, ledgers, model, monitors
from ..core import stable_hash
from ..ir import T_BOOL, T_INT, T_NULL
from ..values import same_rows, first_row_diff, show, show_rows

ID = 'C01'
LEVEL = 'exploration'
RULE = ('Systematic part: every operator/function overload of the harness specification table (written from the '
        'property text) x operand form {column, literal} over a table holding the cross product of the operand '
        'value pools and NULL (so every NULL position occurs), as target and as WHERE; AND/OR with 2-4 operands '
        'over {NULL,TRUE,FALSE}^n. Random part: random typed tables (0-8 rows quick, 0-40 thorough, NULL '
        'probability per column in {0,.2,.6,1}, forced duplicates) x random well-typed expression trees '
        '(depth<=4 quick, <=7 thorough) as 1-4 targets plus WHERE and FROM-expression conditions, executed through '
        'directly built ASTs and (a fraction) through text+parser. A case is distinct by (statement, table digest); '
        'non-trivial when the table is non-empty and the statement applies at least one operator or function to a column.')
ASSUMPTIONS = [
    'reference model R1/R2 written from the property statement; arithmetic itself uses Python int/Decimal/date operations',
    'inputs on which the definition itself raises (Decimal InvalidOperation, OverflowError) are excluded when model and engine raise alike',
    'ordering of object-typed mixed values and partial functions are not generated',
]
EXCLUDED_BOTH = (InvalidOperation, OverflowError, ZeroDivisionError, _re.error)      # (an invalid regular expression built from data: undefined)


def nontrivial(q, mt):
    if not mt.rows:
        return False
    for e in q.exprs():
        for n in e.walk():
            if n.kind in ('bin', 'un', 'between', 'and', 'or', 'func') and any(c.kind == 'col' for c in n.walk()):
                return True
    return False


def run_case(ctx, q, tables, route, label, mon, check_traces=False):
    """Execute q on the engine and on the model and compare."""
    mt = tables.get(q.table) or tables.get('postings')
    conn = engine.connection(tables.values())
    text = None
    params = None
    try:
        if route == 'text':
            text = ir.to_text(q)
            ps = q.params()
            if ps:
                params = [p.value for p in ps]
            stmt = text
        else:
            stmt = ir.to_ast(q)
    except ValueError:
        ctx.count('skipped.unprintable')
        return
    case = {'label': label, 'route': route, 'statement': ir.to_text(q, _LIT), 'table': mt.name,
            'columns': mt.columns, 'rows': show_rows(mt.rows, 40)}
    mon.reset()
    mon.enabled = True
    mon.trace_bools = check_traces
    eng_exc = None
    try:
        names, dtypes, rows = engine.run(conn, stmt, params)
    except Exception as exc:  # noqa: BLE001
        eng_exc = exc
    finally:
        mon.enabled = False
    mod_exc = None
    try:
        mnames, mtypes, mrows = model.run_query(q, tables)
    except model.ModelError as exc:
        ctx.count('skipped.model_domain')
        return
    except EXCLUDED_BOTH as exc:
        mod_exc = exc
    ctx.case((case['statement'], gen.table_digest(mt), route), nontrivial(q, mt))
    ctx.count(f'route.{route}')
    ctx.count('obs.node_evaluations', mon.node_evals - run_case.last_evals)
    run_case.last_evals = mon.node_evals
    if eng_exc is not None or mod_exc is not None:
        if eng_exc is not None and mod_exc is not None and type(eng_exc) is type(mod_exc):
            ctx.count('excluded.definition_raises')
            return
        if isinstance(eng_exc, EXCLUDED_BOTH) and model.domain_error_possible(q, tables, EXCLUDED_BOTH):
            # an arithmetic domain error (decimal context overflow ...) on a row or sub-expression the model never needed to
            # evaluate (the model is lazier than the engine; such an evaluation exists): outside the property, counted
            ctx.count('excluded.engine_arithmetic_domain_error')
            return
        if eng_exc is not None:
            kind = monitors.classify_exception(eng_exc)
            ctx.violation(f'c01.engine_raised.{kind}', f'{type(eng_exc).__name__}: {eng_exc} on {case["statement"]}', case)
        else:
            ctx.count('excluded.model_raises_only')
        return
    ctx.count('obs.rows_compared', len(mrows))
    if hash(case['statement']) % 5 == 0:
        # re-execution on the same connection gives the same rows (no state kept between executions)
        try:
            _, _, rows_again = engine.run(conn, ir.to_text(q) if route == 'text' else ir.to_ast(q), params)
            ctx.count('obs.reexecutions')
            if not same_rows(rows_again, rows):
                ctx.violation('c01.reexecution_differs', f'{case["statement"]}: a second execution on the same connection returns different rows', case)
        except Exception as exc:  # noqa: BLE001
            ctx.violation('c01.reexecution_differs', f'{case["statement"]}: a second execution raised {exc!r}', case)
    if len(ctx.samples) < 4 and nontrivial(q, mt) and rows:
        ctx.sample({'statement': case['statement'], 'route': route, 'table_rows': show_rows(mt.rows, 4),
                    'result_rows': show_rows(rows, 4)})
    if mon.dtype_violations:
        ctx.violation('c01.node_dtype', f'node value does not conform to its dtype: {mon.dtype_violations[0]}', case)
    if not same_rows(rows, mrows):
        diff = first_row_diff(rows, mrows)
        ctx.violation('c01.value_mismatch',
                      f'{case["statement"]}: row {diff[0]} engine={show(diff[1])} model={show(diff[2])} '
                      f'(engine {len(rows)} rows, model {len(mrows)})', case,
                      {'engine': show_rows(rows), 'model': show_rows(mrows)})
        return
    if not engine.types_match(mtypes, dtypes):
        ctx.violation('c01.type_mismatch', f'{case["statement"]}: announced {[getattr(d, "__name__", d) for d in dtypes]} model {mtypes}', case)
    if route == 'text':
        exp = [ir.target_name(t) for t in q.targets]
        if names != exp:
            ctx.violation('c01.names', f'{case["statement"]}: names {names} expected {exp}', case)
    if check_traces:
        for kind, seen, nargs, value in mon.bool_traces:
            ctx.count(f'obs.{kind}_traces')
            problem = check_bool_trace(kind, seen, nargs, value)
            if problem:
                ctx.violation(f'c01.{kind}_trace', f'{case["statement"]}: {problem}', case)


run_case.last_evals = 0
_LIT = ir.Style()
_LIT.param_style = 'literal'


def check_bool_trace(kind, seen, nargs, value):
    """AND stops at its first NULL or false operand; OR is TRUE iff some operand is
    true, else NULL iff some operand is NULL."""
    if kind == 'and':
        stop = None
        for i, v in enumerate(seen):
            if v is None or not v:
                stop = i
                break
        if stop is not None:
            if len(seen) != stop + 1:
                return f'AND evaluated {len(seen)} operands although operand {stop} was {seen[stop]!r}'
            exp = None if seen[stop] is None else False
        else:
            if len(seen) != nargs:
                return f'AND evaluated {len(seen)} of {nargs} operands, all true'
            exp = True
        if value is not exp:
            return f'AND over {seen} gave {value!r}, expected {exp!r}'
    else:
        if any(v for v in seen if v is not None):
            exp = True
        elif any(v is None for v in seen):
            exp = None
        else:
            exp = False
        if value is not exp:
            return f'OR over {seen} gave {value!r}, expected {exp!r}'
        if exp is not True and len(seen) != nargs:
            return f'OR evaluated {len(seen)} of {nargs} operands without finding a true one'
    return None


def null_pattern_counts(ctx, q, mt):
    """Coverage: which (overload, NULL pattern) combinations the executed rows realise."""
    env = model.Env({})
    colnames = [n for n, _ in mt.columns]
    for e in q.exprs():
        for n in e.walk():
            if n.kind == 'bin' and all(a.kind == 'col' for a in n.args):
                name = gen.overload_name('bin', n.op, [a.type for a in n.args])
                for r in mt.rows:
                    row = dict(zip(colnames, r))
                    pat = ''.join('N' if row[a.name] is None else 'v' for a in n.args)
                    ctx.seen('overload_nullpattern', f'{name}/{pat}')


def systematic_cases():
    """-> list of (label, tables, query, check_traces)."""
    cases = []

    def add(label, mt, expr, traces=False):
        tables = {mt.name: mt}
        q = ir.Query(targets=[ir.Target(ir.col('k', T_INT)), ir.Target(expr, 'r')], table=mt.name)
        cases.append((label, tables, q, traces))
        if expr.type == T_BOOL:
            qw = ir.Query(targets=[ir.Target(ir.col('k', T_INT))], table=mt.name, where=expr)
            cases.append((label + '/where', tables, qw, traces))

    # binary operators: column op column, column op literal, literal op column, literal op literal
    for op, lt, rt, res in gen.BIN_ALL:
        mt = gen.systematic_table(lt, rt)
        x0, x1 = ir.col('x0', lt), ir.col('x1', rt)
        name = gen.overload_name('bin', op, [lt, rt])
        add(name + '/cc', mt, ir.bin_(op, x0, x1, res))
        if rt in gen.LITS:
            for v in gen.LITS[rt][:5]:
                add(name + '/cl', mt, ir.bin_(op, x0, ir.lit(v, rt), res))
        if lt in gen.LITS:
            for v in gen.LITS[lt][:5]:
                add(name + '/lc', mt, ir.bin_(op, ir.lit(v, lt), x1, res))
        if lt in gen.LITS and rt in gen.LITS:
            for v, w in list(itertools.product(gen.LITS[lt][:4], gen.LITS[rt][:4])):
                add(name + '/ll', mt, ir.bin_(op, ir.lit(v, lt), ir.lit(w, rt), res))
    for op, t, res in gen.UN + gen.UN_ANY:
        mt = gen.systematic_table(t)
        name = gen.overload_name('un', op, [t])
        add(name + '/c', mt, ir.un(op, ir.col('x0', t), res))
        if t in gen.LITS:
            for v in gen.LITS[t][:4]:
                add(name + '/l', mt, ir.un(op, ir.lit(v, t), res))
    for a, b, c in gen.BETWEEN:
        mt = gen.systematic_table(a, b, c)
        name = gen.overload_name('between', 'between', [a, b, c])
        add(name + '/ccc', mt, ir.between(ir.col('x0', a), ir.col('x1', b), ir.col('x2', c)))
        add(name + '/cll', mt, ir.between(ir.col('x0', a), ir.lit(gen.LITS[b][1], b), ir.lit(gen.LITS[c][2], c)))
    # IN / NOT IN list literal
    for t in (T_INT, ir.T_DEC, ir.T_STR, ir.T_DATE):
        mt = gen.systematic_table(t)
        pool = [v for v in gen.LITS[t] if not (isinstance(v, (int, gen.D)) and v < 0)]
        for n in (1, 2, 4):
            lst = ir.lit(pool[:n], ir.T_LIST)
            for op in ('in', 'notin'):
                add(gen.overload_name('bin', op, [t, 'list']), mt, ir.bin_(op, ir.col('x0', t), lst, T_BOOL))
    # AND / OR with NULL at every argument index
    for n in (2, 3, 4):
        cols = [('k', T_INT)] + [(f'x{i}', T_BOOL) for i in range(n)]
        rows = [(i, *vals) for i, vals in enumerate(itertools.product([None, True, False], repeat=n))]
        mt = model.ModelTable('sysb', cols, rows)
        args = [ir.col(f'x{i}', T_BOOL) for i in range(n)]
        add(f'and/{n}', mt, ir.and_(*args), traces=True)
        add(f'or/{n}', mt, ir.or_(*args), traces=True)
        # with a NULL literal at each position
        for pos in range(n):
            a2 = list(args)
            a2[pos] = ir.null()
            add(f'and/{n}/null@{pos}', mt, ir.and_(*a2), traces=True)
            add(f'or/{n}/null@{pos}', mt, ir.or_(*a2), traces=True)
    # NOT NULL is TRUE, NULL IS NULL
    mt = gen.systematic_table(T_BOOL)
    add('not/null', mt, ir.un('not', ir.null(), T_BOOL))
    add('isnull/null', mt, ir.un('isnull', ir.null(), T_BOOL))
    add('isnotnull/null', mt, ir.un('isnotnull', ir.null(), T_BOOL))
    # scalar functions and COALESCE
    for name, args, res in gen.FUNCS:
        types = []
        exprs = []
        i = 0
        for a in args:
            if a in (gen.SMALL, gen.DIGITS):
                types.append(T_INT)
                exprs.append(ir.col(f'x{i}', T_INT))
                i += 1
            elif a == gen.UNIT:
                exprs.append(None)
            else:
                types.append(a)
                exprs.append(ir.col(f'x{i}', a))
                i += 1
        mt = gen.systematic_table(*types)
        units = [None]
        if gen.UNIT in args:
            units = (gen.UNITS if name == 'date_trunc' else gen.PART_UNITS) + ['bogus']
        for u in units:
            ex = [e if e is not None else ir.lit(u, ir.T_STR) for e in exprs]
            add(gen.overload_name('func', name, [str(a) for a in args]), mt, ir.func(name, ex, res))
    for t in gen.ANY_TYPES:
        mt = gen.systematic_table(t, t)
        x0, x1 = ir.col('x0', t), ir.col('x1', t)
        add(f'coalesce/{t}/2', mt, ir.func('coalesce', [x0, x1], t))
        add(f'coalesce/{t}/1', mt, ir.func('coalesce', [x0], t))
        if t in gen.LITS:
            add(f'coalesce/{t}/lit', mt, ir.func('coalesce', [x0, x1, ir.lit(gen.LITS[t][0], t)], t))
    return cases


def random_query(rng, g, from_expr=False):
    nt = rng.choice([1, 1, 2, 3, 4])
    targets = [ir.Target(ir.col('k', T_INT))]
    for i in range(nt):
        t = rng.choice([T_INT, ir.T_DEC, ir.T_STR, ir.T_DATE, T_BOOL, T_BOOL, ir.T_OBJ])
        targets.append(ir.Target(g.expr(t), f'c{i}' if rng.random() < 0.5 else None))
    where = g.expr(T_BOOL) if rng.random() < 0.7 else None
    if from_expr:
        return ir.Query(targets=targets, from_=ir.From(expr=g.expr(T_BOOL)), where=where)
    return ir.Query(targets=targets, table='t', where=where)


def run(ctx):
    mon = monitors.install()
    # ---- systematic part
    cases = systematic_cases()
    ctx.count('systematic.total_cases', len(cases) if ctx.shard == 0 else 0)
    for idx, (label, tables, q, traces) in enumerate(cases):
        if not ctx.mine(idx):
            continue
        if ctx.out_of_time():
            break
        mt = next(iter(tables.values()))
        null_pattern_counts(ctx, q, mt)
        ctx.seen('overloads', label.split('/')[0])
        run_case(ctx, q, tables, 'ast', label, mon, check_traces=traces)
        # the text route for a deterministic slice of the systematic cases
        if idx % ctx.pick(12, 2) == 0:
            run_case(ctx, q, tables, 'text', label, mon, check_traces=traces)
        ctx.count('systematic.executed')
    # ---- random part
    n_random = ctx.pick(1200, 25000)
    depth = ctx.pick(4, 7)
    n_ledger = ctx.pick(12, 160)         # per shard
    for n in range(n_random):
        if ctx.out_of_time():
            break
        random_case(ctx, n, depth, mon)
        if n % max(1, n_random // n_ledger) == 0:
            ledger_rows_case(ctx, n)


# ---------------------------------------------------------------------------
# ledger rows: the functions that read the row context (the posting, its transaction) and the ledger's other tables

ROW_TARGETS = [
    'account', 'number', 'currency', 'date', 'narration', 'payee', 'flag', 'posting_flag', 'position', 'weight', 'cost_number',
    'price', 'tags', 'links', 'other_accounts', 'year', 'month', 'day', 'description',
    'has_account("{pat}")', 'NOT has_account("{pat}")', 'has_account("{pat2}") AND number > 0',
    'meta("{key}")', 'entry_meta("{key}")', 'any_meta("{key}")', 'open_date(account)', 'close_date(account)',
    'open_date(parent(account))', 'open_meta(account, "{key}")', 'currency_meta(currency, "{key}")',
    'root(account, 1)', 'root(account, 2)', 'parent(account)', 'leaf(account)', 'account_sortkey(account)',
    'number * 2', 'abs(number)', 'number > 0', 'str(number)', 'account ~ "{pat}"', 'length(narration)',
    'coalesce(payee, narration)', '"{tag}" IN tags', 'units(position)', 'cost(position)', 'getprice(currency, "USD")',
    'convert(position, "USD")', 'value(position)', 'possign(number, account)', 'date_add(date, 1)', 'weekday(date)',
    'payee IS NULL', 'coalesce(cost_number, number)', 'safediv(number, cost_number)',
]
ROW_CONDITIONS = [
    'has_account("{pat}")', 'NOT has_account("{pat}")', 'has_account("{pat}") OR has_account("{pat2}")',
    'any_meta("{key}") IS NOT NULL', 'meta("{key}") IS NULL', 'number > 0', 'account ~ "{pat}"', '"{tag}" IN tags',
    'open_date(account) < date', 'close_date(account) IS NULL', 'cost_number IS NOT NULL', 'payee IS NULL AND number < 0',
    'year = 2020', 'currency = "USD"', 'has_account("{pat}") AND account ~ "{pat2}"',
]
PATTERNS = ['Assets', 'Food', 'Bank', 'expenses:', 'Broker', '^Income', 'Card$', 'Cash|Rent', 'Nope', 'a', 'Sub:Deep', 'Liabilities:Loan']
META_KEYS = ['note', 'ref', 'when', 'ok', 'amt', 'acct', 'cur', 'num', 'tag', 'absent']


def _fill(rng, text):
    return text.format(pat=rng.choice(PATTERNS), pat2=rng.choice(PATTERNS), key=rng.choice(META_KEYS), tag=rng.choice(ledgers.TAGS))


def ledger_rows_case(ctx, n):
    """(a) has_account() equals "some posting of the row's transaction has a matching account", for every row, as a
    column and as a condition; (b) isolation: the rows of a statement over the whole ledger that belong to a subset of
    the transactions equal the result of the same statement over the ledger holding only those transactions (all other
    directives kept): every cell is computed from its own row alone."""
    from beancount.core import data
    rng = ctx.rng('ledger-rows', n)
    led = ledgers.gen_ledger(rng, ntxn=rng.randint(3, ctx.pick(10, 30)))
    entries, errors, options = led.loaded
    conn = engine.connection(ledger=(entries, errors, options))
    txns = [e for e in entries if isinstance(e, data.Transaction)]
    if not txns:
        return
    # (a) reference for has_account
    pat = rng.choice(PATTERNS)
    search = re.compile(pat, re.IGNORECASE).search
    per_row = [any(search(p.account) for p in t.postings) for t in txns for _ in t.postings]
    try:
        _, _, col = engine.run(conn, f'SELECT has_account("{pat}") AS h')
        _, _, sel = engine.run(conn, f'SELECT date, account, number WHERE has_account("{pat}")')
        _, _, frm = engine.run(conn, f'SELECT date, account, number FROM has_account("{pat}")')
        _, _, allrows = engine.run(conn, 'SELECT date, account, number')
    except Exception as exc:  # noqa: BLE001
        ctx.violation(f'c01.ledger_rows_raised.{monitors.classify_exception(exc)}', f'has_account("{pat}"): {exc!r}', {'pattern': pat, 'ledger': led.text})
        return
    ctx.count('obs.ledger_has_account_rows', len(per_row))
    ctx.case(('has_account', pat, led.text), len(set(per_row)) > 1)
    if len(set(per_row)) > 1:
        ctx.count('obs.ledger_has_account_mixed')
    if [r[0] for r in col] != per_row:
        bad = next(i for i, (a, b) in enumerate(zip([r[0] for r in col] + [None], per_row + [None])) if a != b)
        ctx.violation('c01.has_account_value', f'has_account("{pat}") row {bad}: engine {col[bad][0] if bad < len(col) else "-"} expected {per_row[bad] if bad < len(per_row) else "-"}',
                      {'pattern': pat, 'ledger': led.text})
    exp_sel = [tuple(r) for r, keep in zip(allrows, per_row) if keep]
    for name, got in (('WHERE', sel), ('FROM', frm)):
        if [tuple(r) for r in got] != exp_sel:
            ctx.violation('c01.has_account_filter', f'{name} has_account("{pat}") selects {len(got)} rows, expected {len(exp_sel)}',
                          {'pattern': pat, 'ledger': led.text})
    # (a2) the functions of the row's own position against the directives (zero units and zero costs included: a zero is no NULL)
    from beancount.core import convert as _convert
    try:
        _, _, prow = engine.run(conn, 'SELECT units(position) AS u, cost(position) AS c, number AS n, currency AS cur, abs(number) AS a, number(units(position)) AS nu, '
                                      'currency(units(position)) AS cu, units(position) IS NULL AS un, neg(units(position)) AS ng')
    except Exception as exc:  # noqa: BLE001
        ctx.violation(f'c01.ledger_rows_raised.{monitors.classify_exception(exc)}', f'position functions: {exc!r}', {'ledger': led.text})
        return
    flat = [p for t in txns for p in t.postings]
    ctx.count('obs.ledger_position_function_rows', len(flat))
    ctx.count('obs.ledger_zero_unit_postings', sum(1 for p in flat if p.units.number == 0))
    for i, (p, r) in enumerate(zip(flat, prow)):
        exp = (p.units, _convert.get_cost(p), p.units.number, p.units.currency, abs(p.units.number), p.units.number, p.units.currency, False, -p.units)
        if tuple(r) != exp:
            k = next(j for j, (a, b) in enumerate(zip(r, exp)) if a != b)
            ctx.violation('c01.ledger_position_function', f'posting {i} ({p.account} {p.units}): {["units(position)", "cost(position)", "number", "currency", "abs(number)", "number(units(position))", "currency(units(position))", "units(position) IS NULL", "neg(units(position))"][k]} '
                          f'= {show(r[k])}, the directive gives {show(exp[k])}', {'ledger': led.text})
            break
    # (b) isolation
    targets = [_fill(rng, t) for t in rng.sample(ROW_TARGETS, rng.randint(2, 6))]
    cond = _fill(rng, rng.choice(ROW_CONDITIONS)) if rng.random() < 0.5 else None
    clause = '' if cond is None else (f' FROM {cond}' if rng.random() < 0.3 else f' WHERE {cond}')
    stmt = 'SELECT id, ' + ', '.join(f'{t} AS c{i}' for i, t in enumerate(targets)) + clause
    try:
        _, _, full = engine.run(conn, stmt)
    except Exception as exc:  # noqa: BLE001
        ctx.violation(f'c01.ledger_rows_raised.{monitors.classify_exception(exc)}', f'{stmt}: {exc!r}', {'statement': stmt, 'ledger': led.text})
        return
    others = [e for e in entries if not isinstance(e, data.Transaction)]
    from beancount.parser import printer  # noqa: F401
    from beancount.core import compare
    ids = []
    for t in txns:
        h = compare.hash_entry(t)
        if h not in ids:
            ids.append(h)
    for rep in range(2):
        keep = set(rng.sample(ids, rng.randint(1, max(1, len(ids) // 2)))) if rep else {rng.choice(ids)}
        sub = [e for e in entries if not isinstance(e, data.Transaction) or compare.hash_entry(e) in keep]
        try:
            _, _, part = engine.run(engine.connection(ledger=(sub, errors, options)), stmt)
        except Exception as exc:  # noqa: BLE001
            ctx.violation(f'c01.ledger_rows_raised.{monitors.classify_exception(exc)}', f'{stmt} over a sub-ledger: {exc!r}', {'statement': stmt, 'ledger': led.text})
            return
        exp = [r for r in full if r[0] in keep]
        ctx.count('obs.ledger_isolation_checks')
        ctx.count('obs.ledger_isolation_rows', len(exp))
        ctx.case(('isolation', stmt, led.text, tuple(sorted(keep))), len(exp) > 0 and len(exp) < len(full))
        if not same_rows(part, exp):
            d = first_row_diff(part, exp)
            ctx.violation('c01.ledger_row_isolation',
                          f'{stmt}: over the ledger holding only {len(keep)} of its transactions row {d[0]} is {show(d[1])}, in the result over the whole ledger it is {show(d[2])}',
                          {'statement': stmt, 'ledger': led.text, 'kept_transaction_ids': sorted(keep)})
            break
    if ctx.counters['obs.ledger_samples'] < 1:
        ctx.count('obs.ledger_samples')
        ctx.sample({'part': 'ledger', 'statement': stmt, 'rows_full_ledger': len(full), 'has_account_pattern': pat,
                    'has_account_true_rows': sum(per_row), 'rows': len(per_row)}, force=True)


def random_case(ctx, n, depth, mon):
    rng = ctx.rng('random', n)
    g = gen.ExprGen(rng, max_depth=depth, allow_params=False)
    mt = gen.gen_table(rng, 't', max_rows=ctx.pick(8, 40))
    from_expr = rng.random() < 0.2
    tables = {'t': mt}
    if from_expr:
        tables = {'postings': model.ModelTable('postings', mt.columns, mt.rows)}
    q = random_query(rng, g, from_expr)
    route = 'text' if rng.random() < ctx.pick(0.15, 0.1) else 'ast'
    run_case(ctx, q, tables, route, f'random/{n}', mon, check_traces=True)
    ctx.count('random.executed')
    if from_expr:
        ctx.count('random.from_expression')
    # metamorphic: computed from that row alone
    if rng.random() < 0.1 and mt.rows and not from_expr:
        metamorphic(ctx, rng, q, mt)


def metamorphic(ctx, rng, q, mt):
    """The same query over a row-permuted table gives the permuted rows; over each
    single-row table it gives that row's result alone."""
    conn = engine.connection([mt])
    try:
        _, _, base = engine.run(conn, ir.to_ast(q))
    except Exception:  # noqa: BLE001
        return
    by_k = {r[0]: r for r in base}
    perm = list(mt.rows)
    rng.shuffle(perm)
    mt2 = model.ModelTable(mt.name, mt.columns, perm)
    _, _, rows2 = engine.run(engine.connection([mt2]), ir.to_ast(q))
    exp = [by_k[r[0]] for r in perm if r[0] in by_k]
    ctx.count('obs.metamorphic_permutations')
    if not same_rows(rows2, exp):
        ctx.violation('c01.row_permutation', f'{ir.to_text(q, _LIT)}: result over a permuted table is not the permuted result',
                      {'statement': ir.to_text(q, _LIT), 'rows': show_rows(perm, 40)})
    for r in mt.rows[:3]:
        mt1 = model.ModelTable(mt.name, mt.columns, [r])
        _, _, rows1 = engine.run(engine.connection([mt1]), ir.to_ast(q))
        exp1 = [by_k[r[0]]] if r[0] in by_k else []
        ctx.count('obs.metamorphic_single_row')
        if not same_rows(rows1, exp1):
            ctx.violation('c01.single_row', f'{ir.to_text(q, _LIT)}: single-row result differs from the row of the full result',
                          {'statement': ir.to_text(q, _LIT), 'row': show(r)})


def replay(ctx, case):
    mon = monitors.install()
    label = (case or {}).get('label', '')
    if label.startswith('random/'):
        random_case(ctx, int(label.split('/')[1]), ctx.pick(4, 7), mon)
    elif 'ledger' in (case or {}):
        print('replay: ledger case; the ledger text and the statement are in the replay file; re-run the check with the same seed')
    else:
        for idx, (lab, tables, q, traces) in enumerate(systematic_cases()):
            if lab == label and ir.to_text(q, _LIT) == case.get('statement'):
                run_case(ctx, q, tables, case.get('route', 'ast'), lab, mon, check_traces=traces)


def finalize(merged):
    reasons = []
    c = merged['counters']
    if c.get('systematic.executed', 0) < c.get('systematic.total_cases', 1):
        reasons.append(f"systematic part incomplete: {c.get('systematic.executed', 0)}/{c.get('systematic.total_cases')}")
    pats = merged['sets'].get('overload_nullpattern', set())
    missing = []
    for op, lt, rt, res in gen.BIN_ALL:
        name = gen.overload_name('bin', op, [lt, rt])
        for pat in ('vv', 'Nv', 'vN', 'NN'):
            if f'{name}/{pat}' not in pats:
                missing.append(f'{name}/{pat}')
    if missing:
        reasons.append(f'overload x NULL-pattern floor missed: {missing[:5]} (+{len(missing) - 5 if len(missing) > 5 else 0})')
    if c.get('obs.and_traces', 0) == 0 or c.get('obs.or_traces', 0) == 0:
        reasons.append('AND/OR trace monitor never fired')
    if c.get('obs.node_evaluations', 0) == 0:
        reasons.append('node evaluation hook never fired')
    if c.get('obs.ledger_isolation_checks', 0) == 0 or c.get('obs.ledger_has_account_mixed', 0) == 0:
        reasons.append('ledger-row part observed nothing (no isolation check, or has_account() constant over every ledger)')
    merged['extra']['overloads_in_spec'] = len(gen.BIN_ALL) + len(gen.UN) + len(gen.UN_ANY) + len(gen.BETWEEN) + len(gen.FUNCS)
    merged['extra']['overload_nullpatterns_observed'] = len(pats)
    return reasons

"""C14 — BALANCES / JOURNAL / PRINT equal their SELECT expansions; PRINT is lossless.

Oracles: per-account Inventory sums and the posting register computed in the harness
from raw rows fetched with plain SELECTs; the written-out SELECT statements of the
property; for PRINT the printed text re-read with Beancount's parser (and loader for
complete ledgers) and compared with the directives that satisfy the FROM clause.
"""
import datetime
import io
import re
import textwrap
from decimal import Decimal

from .. import engine, ledgers, monitors
from ..values import show_rows

ID = 'C14'
LEVEL = 'exploration'
RULE = ('Generated ledgers x BALANCES [AT units|cost] [FROM filter/OPEN/CLOSE/CLEAR] [WHERE cond], JOURNAL [pattern in {anchored, '
        'alternation, case-mixed, special characters, matching nothing}] [AT units|cost] [FROM ...], PRINT [FROM filters over year, '
        'date, flag, type, tags and clause combinations] over every directive type. BALANCES/JOURNAL are compared with harness '
        'computations over raw rows and with the written-out SELECT (rows and datatypes); PRINT output is re-read and compared '
        'directive by directive; full PRINT of pad-free ledgers is re-loaded. Distinct by (ledger digest, statement); non-trivial '
        'when the result has >= 2 rows / directives.')
ASSUMPTIONS = ['beancount.parser.printer, parser.parse_string and loader.load_string are trusted',
               'JOURNAL shortens payee/narration with textwrap.shorten semantics (whitespace-normalised, " [...]" placeholder)']

FROMS = ['', 'FROM year = 2020', 'FROM flag = "*"', 'FROM year >= 2019 AND month <= 6', 'FROM OPEN ON 2020-01-01', 'FROM CLOSE ON 2020-07-01',
         'FROM OPEN ON 2019-07-01 CLOSE ON 2020-07-01 CLEAR', 'FROM year = 2020 CLOSE', 'FROM "trip" IN tags', 'FROM has_account("Cash")', 'FROM CLEAR']
WHERES = ['', 'WHERE account ~ "Assets"', 'WHERE currency = "USD"', 'WHERE number > 0', 'WHERE account ~ "Nope"', 'WHERE year = 2020 AND NOT account ~ "Equity"']
PATTERNS = [None, 'Assets', '^Assets', 'Food|Rent', 'assets:BANK', 'Assets:.*:Checking', 'Nope', 'Cash$', 'A', 'Broker(:Sub)?',
            # regular-expression escapes and characters that matter to quoting
            r'^Assets:\w+$', r'Bank\b', r'Assets:\w+:\w+', r'\bFood', r'Expenses:[A-Z]\w*$', r'Income\.', r'\d', r'^[^:]+:[^:]+$', "Cash'?", r'Assets:(Cash|EUR)\Z']
FUNCS = [None, 'units', 'cost']


def inv_of(values):
    from beancount.core import inventory, amount
    inv = inventory.Inventory()
    for v in values:
        if v is None:
            continue
        if isinstance(v, amount.Amount):
            inv.add_amount(v)
        elif isinstance(v, inventory.Inventory):
            inv.add_inventory(v)
        else:
            inv.add_position(v)
    return inv


def apply_func(f, pos):
    from beancount.core import convert
    if f is None:
        return pos
    return convert.get_units(pos) if f == 'units' else convert.get_cost(pos)


def run_stmt(conn, text):
    cur = conn.execute(text)
    return [d.name for d in cur.description], [d.datatype for d in cur.description], cur.fetchall()


def check_balances(ctx, rng, conn, options, case):
    from beancount.parser import options as bopts
    f = rng.choice(FUNCS)
    frm = rng.choice(FROMS)
    where = rng.choice(WHERES)
    text = ' '.join(x for x in ['BALANCES', f'AT {f}' if f else '', frm, where] if x)
    case = dict(case, statement=text)
    try:
        names, types, rows = run_stmt(conn, text)
        _, _, raw = run_stmt(conn, ' '.join(x for x in ['SELECT account, position', frm, where] if x))
        fx = f'{f}(position)' if f else 'position'
        wnames, wtypes, wrows = run_stmt(conn, ' '.join(x for x in [f'SELECT account, sum({fx})', frm, where,
                                                                    'GROUP BY account, account_sortkey(account) ORDER BY account_sortkey(account)'] if x))
    except Exception as exc:  # noqa: BLE001
        ctx.violation(f'c14.balances_failed.{monitors.classify_exception(exc)}', f'{text}: {type(exc).__name__}: {exc}', case)
        return
    at = bopts.get_account_types(options)
    order = [at.assets, at.liabilities, at.equity, at.income, at.expenses]
    sums = {}
    for a, p in raw:
        sums.setdefault(a, []).append(apply_func(f, p))
    exp = [(a, inv_of(sums[a])) for a in sorted(sums, key=lambda a: (order.index(a.split(':')[0]) if a.split(':')[0] in order else 9, a))]
    ctx.case((case['digest'], text), len(exp) >= 2)
    ctx.count('obs.balances_cases')
    ctx.count('obs.balances_rows', len(rows))
    if len(ctx.samples) < 2 and len(rows) >= 2:
        ctx.sample({'statement': text, 'rows': show_rows(rows, 3)})
    if [tuple(r) for r in rows] != exp:
        ctx.violation('c14.balances_vs_harness', f'{text}: engine {show_rows(rows, 3)} ; harness per-account sums {show_rows(exp, 3)}', case)
        return
    if rows != wrows or types != wtypes or len(names) != 2:
        ctx.violation('c14.balances_vs_select', f'{text}: differs from its written-out SELECT (rows or datatypes)', case)


def shorten(s, n):
    return None if s is None else textwrap.shorten(s, width=n)


def check_journal(ctx, rng, conn, case):
    from beancount.core import inventory
    f = rng.choice(FUNCS)
    frm = rng.choice(FROMS)
    pat = rng.choice(PATTERNS)
    text = ' '.join(x for x in ['JOURNAL', f'"{pat}"' if pat is not None else '', f'AT {f}' if f else '', frm] if x)
    case = dict(case, statement=text)
    try:
        names, types, rows = run_stmt(conn, text)
        _, _, raw = run_stmt(conn, ' '.join(x for x in ['SELECT date, flag, payee, narration, account, position', frm] if x))
        fp = f'{f}(position)' if f else 'position'
        fb = f'{f}(balance)' if f else 'balance'
        w = f'WHERE account ~ "{pat}"' if pat else ''
        wnames, wtypes, wrows = run_stmt(conn, ' '.join(x for x in [f'SELECT date, flag, maxwidth(payee, 48), maxwidth(narration, 80), account, {fp}, {fb}', frm, w] if x))
    except Exception as exc:  # noqa: BLE001
        ctx.violation(f'c14.journal_failed.{monitors.classify_exception(exc)}', f'{text}: {type(exc).__name__}: {exc}', case)
        return
    run = inventory.Inventory()
    exp = []
    for d, fl, payee, narr, acc, pos in raw:
        if pat and not re.search(pat, acc, re.IGNORECASE):
            continue
        run.add_position(pos)
        bal = inventory.Inventory(run.get_positions())
        if f == 'units':
            from beancount.core import convert
            bal = bal.reduce(convert.get_units)
        elif f == 'cost':
            from beancount.core import convert
            bal = bal.reduce(convert.get_cost)
        exp.append((d, fl, shorten(payee, 48), shorten(narr, 80), acc, apply_func(f, pos), bal))
    ctx.case((case['digest'], text), len(exp) >= 2)
    ctx.count('obs.journal_cases')
    ctx.count('obs.journal_rows', len(rows))
    ctx.seen('journal_patterns', str(pat))
    if len(rows) != len(exp) or any(tuple(r) != e for r, e in zip(rows, exp)):
        bad = next((i for i, (r, e) in enumerate(zip(rows, exp)) if tuple(r) != e), min(len(rows), len(exp)))
        ctx.violation('c14.journal_vs_harness', f'{text}: {len(rows)} rows, harness register {len(exp)} rows; first difference at row {bad}: '
                      f'{rows[bad] if bad < len(rows) else None} vs {exp[bad] if bad < len(exp) else None}', case)
        return
    if rows != wrows or types != wtypes or len(names) != 7:
        ctx.violation('c14.journal_vs_select', f'{text}: differs from its written-out SELECT (rows or datatypes)', case)


PRINT_FILTERS = [
    ('', lambda e: True),
    ('FROM year = 2020', lambda e: e.date.year == 2020),
    ('FROM date >= 2020-03-01', lambda e: e.date >= datetime.date(2020, 3, 1)),
    ('FROM flag = "*"', lambda e: getattr(e, 'flag', None) == '*' and type(e).__name__ == 'Transaction'),
    ('FROM type = "transaction"', lambda e: type(e).__name__ == 'Transaction'),
    ('FROM type != "transaction" AND type != "price"', lambda e: type(e).__name__ not in ('Transaction', 'Price')),
    ('FROM type = "open" OR type = "commodity" OR type = "note" OR type = "event" OR type = "document" OR type = "balance" OR type = "pad" OR type = "query" OR type = "close"',
     lambda e: type(e).__name__ in ('Open', 'Commodity', 'Note', 'Event', 'Document', 'Balance', 'Pad', 'Query', 'Close')),
    ('FROM "trip" IN tags', lambda e: type(e).__name__ == 'Transaction' and 'trip' in (e.tags or ())),
    ('FROM year = 2019 AND month > 6', lambda e: e.date.year == 2019 and e.date.month > 6),
    ('FROM narration ~ "rent"', lambda e: type(e).__name__ == 'Transaction' and re.search('rent', e.narration or '', re.I) is not None),
    # conditions that are not boolean-typed: a directive satisfies them when the value is neither NULL nor empty / zero (as a
    # row does a WHERE condition)
    ('FROM payee', lambda e: type(e).__name__ == 'Transaction' and bool(e.payee)),
    ('FROM tags', lambda e: type(e).__name__ == 'Transaction' and bool(e.tags)),
    ('FROM length(narration)', lambda e: type(e).__name__ == 'Transaction' and len(e.narration or '') > 0),
    ('FROM meta("when")', lambda e: bool((e.meta or {}).get('when'))),
    ('FROM year - 2020', lambda e: e.date.year != 2020),
    # OR with a first operand that is NULL on the directives the second one accepts (payee / narration / flag of a non-transaction)
    ('FROM payee = "Acme" OR type = "open"', lambda e: (type(e).__name__ == 'Transaction' and e.payee == 'Acme') or type(e).__name__ == 'Open'),
    ('FROM narration ~ "rent" OR flag = "!" OR type = "note" OR type = "balance"',
     lambda e: (type(e).__name__ == 'Transaction' and (re.search('rent', e.narration or '', re.I) is not None or e.flag == '!')) or type(e).__name__ in ('Note', 'Balance')),
    ('FROM has_account("Opening")', lambda e: any(re.search('Opening', a, re.I) for a in _accounts_of(e))),
    ('FROM has_account("Cash") AND type != "transaction"', lambda e: type(e).__name__ != 'Transaction' and any(re.search('Cash', a, re.I) for a in _accounts_of(e))),
    ('FROM NOT has_account("Assets")', lambda e: not any(re.search('Assets|Actifs', a, re.I) for a in _accounts_of(e)) if False else not any(re.search('Assets', a, re.I) for a in _accounts_of(e))),
]


def _accounts_of(e):
    """Every account a directive names (Beancount's definition)."""
    from beancount.core import getters
    return getters.get_entry_accounts(e)


def normalise(e):
    """Comparable content of a directive (cost specification <-> cost, metadata minus file positions)."""
    from beancount.core import data
    meta = {k: v for k, v in (e.meta or {}).items() if k not in ('filename', 'lineno') and not k.startswith('__')}
    name = type(e).__name__
    if isinstance(e, data.Transaction):
        posts = []
        for p in e.postings:
            c = p.cost
            if c is None:
                cost = None
            elif hasattr(c, 'number_per'):
                cost = (c.number_per, c.currency, c.date, c.label)
            else:
                cost = (c.number, c.currency, c.date, c.label)
            pm = {k: v for k, v in (p.meta or {}).items() if k not in ('filename', 'lineno') and not k.startswith('__')}
            posts.append((p.account, p.units, cost, p.price, p.flag, tuple(sorted(pm.items(), key=str))))
        return (name, e.date, e.flag, e.payee or None, e.narration, frozenset(e.tags or ()), frozenset(e.links or ()), tuple(posts), tuple(sorted(meta.items(), key=str)))
    fields = [getattr(e, f) for f in e._fields if f not in ('meta',)]
    fields = [tuple(f) if isinstance(f, list) else f for f in fields]
    if isinstance(e, data.Balance):
        fields = [e.date, e.account, e.amount]       # tolerance / diff_amount are computed, not printed
    return (name, *fields, tuple(sorted(meta.items(), key=str)))


def reparse(printed, ledger_text):
    """Parse PRINT output in the context of the ledger's own options (root account names)."""
    from beancount.parser import parser as bparser
    opts = '\n'.join(l for l in ledger_text.splitlines() if l.startswith('option "name_'))
    return bparser.parse_string((opts + '\n' if opts else '') + printed)


def check_print(ctx, rng, conn, entries, case, full_reload, case_errors=()):
    from beanquery import compiler, query_execute
    from beancount.parser import parser as bparser
    from beancount.core import data
    ftext, pred = rng.choice(PRINT_FILTERS)
    text = ('PRINT ' + ftext).strip()
    case = dict(case, statement=text)
    out = io.StringIO()
    try:
        query_execute.execute_print(compiler.compile(conn, conn.parse(text)), out)
    except Exception as exc:  # noqa: BLE001
        ctx.violation(f'c14.print_failed.{monitors.classify_exception(exc)}', f'{text}: {type(exc).__name__}: {exc}', case)
        return
    printed = out.getvalue()
    pentries, perrors, _ = reparse(printed, case['ledger'])
    exp = [e for e in entries if pred(e)]
    ctx.case((case['digest'], text), len(exp) >= 2)
    ctx.count('obs.print_cases')
    ctx.count('obs.print_directives', len(exp))
    for e in exp:
        ctx.seen('printed_directive_types', type(e).__name__)
    if perrors:
        ctx.violation('c14.print_not_beancount_syntax', f'{text}: printed text does not parse: {perrors[0].message}', case)
        return
    if [type(e).__name__ for e in pentries] != [type(e).__name__ for e in exp] or [e.date for e in pentries] != [e.date for e in exp]:
        ctx.violation('c14.print_selection', f'{text}: printed {len(pentries)} directives, expected the {len(exp)} satisfying the FROM expression, in ledger order', case)
        return
    for a, b in zip(pentries, exp):
        na, nb = normalise(a), normalise(b)
        if na != nb:
            ctx.violation('c14.print_lossy', f'{text}: printed directive differs from the ledger\'s: {na} vs {nb}', case)
            return
    if ftext == '' and full_reload:
        from beancount import loader
        from beancount.core.compare import hash_entry
        opts = '\n'.join(l for l in case['ledger'].splitlines() if l.startswith('option '))
        e2, err2, _ = loader.load_string(opts + '\n' + printed)
        ctx.count('obs.print_full_reloads')
        # (what the ledger itself reports when loaded -- e.g. a balance assertion in a currency its account does not hold -- the
        # printed ledger reports again: only a report the original did not have counts)
        if sorted(e.message for e in err2) != sorted(e.message for e in case_errors) or \
                [hash_entry(e, exclude_meta=True) for e in e2] != [hash_entry(e, exclude_meta=True) for e in entries]:
            ctx.violation('c14.print_does_not_load_back', f'PRINT of the whole ledger does not load back to equal directives ({len(err2)} errors)', case)


def run_case(ctx, n):
    rng = ctx.rng('case', n)
    with_pad = rng.random() < 0.5
    led = ledgers.gen_ledger(rng, ntxn=rng.randint(3, ctx.pick(14, 50)), with_pad=with_pad, renamed_roots=rng.random() < 0.2)
    entries, errors, options = led.loaded
    conn = engine.connection(ledger=led.loaded)
    from ..core import stable_hash
    case = {'replay': ['case', n], 'ledger': led.text, 'digest': stable_hash(led.text)[:12]}
    if rng.random() < 0.5:
        # the first statements of the connection raise part-way through their scans (and are abandoned)
        for failing in rng.sample(['SELECT date, splitcomp(account, ":", 2) AS c, balance', 'SELECT balance, date_add(date, 99999999 * (year - 2019)) AS x',
                                   'SELECT type, date_add(date, 99999999 * (year - 2019)) AS x FROM #entries', 'SELECT account, str(number) ~ "(" AS m FROM year >= 2020'], 2):
            try:
                conn.execute(failing).fetchall()
            except Exception:  # noqa: BLE001
                ctx.count('obs.failed_first_statements')
    for _ in range(ctx.pick(3, 6)):
        check_balances(ctx, rng, conn, options, case)
        check_journal(ctx, rng, conn, case)
    for _ in range(ctx.pick(2, 4)):
        check_print(ctx, rng, conn, entries, case, full_reload=not any(type(e).__name__ == 'Pad' for e in entries), case_errors=errors)
    check_print_clauses(ctx, rng, conn, entries, case)
    for _ in range(ctx.pick(2, 4)):
        check_period_reference(ctx, rng, conn, entries, options, case)
    if rng.random() < ctx.pick(0.5, 0.3):
        check_shell_route(ctx, rng, led, conn, case)


def check_shell_route(ctx, rng, led, conn, case):
    """The statements typed in the shell print what the API route gives (PRINT: the same lossless text)."""
    import contextlib, os, shutil, tempfile
    from beanquery import shell, compiler, query_execute
    tmp = tempfile.mkdtemp(prefix='bqv-c14-')
    try:
        path = os.path.join(tmp, 'l.beancount')
        with open(path, 'w') as f:
            f.write(led.text)
        out = io.StringIO()
        with contextlib.redirect_stdout(io.StringIO()), contextlib.redirect_stderr(io.StringIO()):
            sh = shell.BQLShell(path, out, interactive=False, runinit=False)
        for text in ('PRINT', 'PRINT ' + rng.choice([f for f, _ in PRINT_FILTERS if f])):
            out.seek(0)
            out.truncate()
            with contextlib.redirect_stdout(io.StringIO()), contextlib.redirect_stderr(io.StringIO()):
                sh.onecmd(text)
            exp = io.StringIO()
            query_execute.execute_print(compiler.compile(sh.context, sh.context.parse(text)), exp)
            ctx.count('obs.print_through_shell')
            # expectation computed on the shell's own connection with the documented natural-precision printing
            from beancount.parser import printer
            from beancount.core import display_context
            if out.getvalue() != exp.getvalue():
                ctx.violation('c14.print_shell_route', f'{text} typed in the shell differs from PRINT through the API', dict(case, statement=text))
                return
            # and it is lossless: numbers keep every digit
            from beancount.parser import parser as bparser
            pentries, perrors, _ = reparse(out.getvalue(), case['ledger'])
            entries = [e for e in sh.context.tables['entries'].entries]
            if text == 'PRINT' and not perrors and len(pentries) == len(entries):
                for a, b in zip(pentries, entries):
                    if normalise(a) != normalise(b):
                        ctx.violation('c14.print_lossy', f'PRINT typed in the shell: printed directive differs from the ledger\'s: {normalise(a)} vs {normalise(b)}', dict(case, statement=text))
                        return
    finally:
        shutil.rmtree(tmp, ignore_errors=True)


def check_print_clauses(ctx, rng, conn, entries, case):
    """PRINT FROM <expr> OPEN/CLOSE/CLEAR: printed transactions == the entries the SELECT route sees."""
    from beanquery import compiler, query_execute
    from beancount.parser import parser as bparser
    from beancount.core import data
    clauses = rng.choice(['OPEN ON 2020-01-01', 'CLOSE ON 2020-07-01', 'OPEN ON 2019-07-01 CLOSE ON 2020-07-01 CLEAR', 'year = 2020 CLOSE', 'flag = "*" CLEAR'])
    out = io.StringIO()
    try:
        query_execute.execute_print(compiler.compile(conn, conn.parse(f'PRINT FROM {clauses}')), out)
        rows = conn.execute(f'SELECT entry FROM {clauses}').fetchall()
    except Exception as exc:  # noqa: BLE001
        ctx.violation('c14.print_failed.clauses', f'PRINT FROM {clauses}: {exc!r}', dict(case, statement=f'PRINT FROM {clauses}'))
        return
    pentries, perrors, _ = reparse(out.getvalue(), case['ledger'])
    seen = []
    for (e,) in rows:
        if not seen or seen[-1] is not e:
            seen.append(e)
    # (a transaction the loader left without postings -- a booking error -- is printed but has no row for the SELECT route to show)
    ptx = [normalise(t) for t in pentries if isinstance(t, data.Transaction) and t.postings]
    stx = [normalise(t) for t in seen]
    ctx.count('obs.print_clause_cases')
    if perrors or ptx != stx:
        ctx.violation('c14.print_clauses', f'PRINT FROM {clauses}: printed transactions differ from the entries of the SELECT route ({len(ptx)} vs {len(stx)})',
                      dict(case, statement=f'PRINT FROM {clauses}'))


PERIOD_CHOICES = [(datetime.date(2020, 1, 1), None, False), (None, datetime.date(2020, 7, 1), False), (datetime.date(2019, 7, 1), datetime.date(2020, 7, 1), True),
                  (None, True, False), (None, None, True), (datetime.date(2019, 3, 15), True, False), (datetime.date(2020, 4, 1), datetime.date(2021, 4, 1), False),
                  (datetime.date(2020, 1, 1), None, True), (None, None, False), (None, None, False)]


def check_period_reference(ctx, rng, conn, entries, options, case):
    """PRINT / BALANCES / JOURNAL with a filter expression AND period clauses against the reference period view
    (bqverif/period.py): PRINT emits exactly the directives of the view that satisfy the expression, in order; BALANCES and
    JOURNAL are the per-account sums / the register of the view's postings."""
    from beanquery import compiler, query_execute
    from beancount.core import data
    from beancount.parser import options as bopts
    from .. import period
    open_, close, clear = rng.choice(PERIOD_CHOICES)
    if entries and rng.random() < 0.3:
        # boundaries taken from the ledger itself: the date of its last (first) directive, the day before, the day after
        one = datetime.timedelta(days=1)
        last, first = entries[-1].date, entries[0].date
        open_, close, clear = rng.choice([(None, last, False), (None, last + one, False), (None, last - one, False), (first, last, True),
                                          (last, None, False), (first, None, False), (last, last + one, False), (first + one, last, False)])
        ctx.count('obs.period_reference_ledger_boundaries')
    ftext, pred = rng.choice([f for f in PRINT_FILTERS if 'tags' not in f[0]])
    expr = ftext[len('FROM '):] if ftext else None
    clauses = period.clause_text(open_, close, clear, expr)
    view = period.reference_view(entries, options, open_, close, clear)
    text = f'PRINT FROM {clauses}' if clauses else 'PRINT'
    case = dict(case, statement=text)
    out = io.StringIO()
    try:
        query_execute.execute_print(compiler.compile(conn, conn.parse(text)), out)
    except Exception as exc:  # noqa: BLE001
        ctx.violation(f'c14.print_failed.{monitors.classify_exception(exc)}', f'{text}: {type(exc).__name__}: {exc}', case)
        return
    pentries, perrors, _ = reparse(out.getvalue(), case['ledger'])
    exp = [e for e in view if pred(e)]
    ctx.count('obs.period_reference_cases')
    ctx.count('obs.period_reference_synthesized_entries', sum(1 for e in view if not any(e is o for o in entries)))
    ctx.case((case['digest'], text), len(exp) >= 2 and len(view) != len(entries))
    if perrors:
        ctx.violation('c14.print_not_beancount_syntax', f'{text}: printed text does not parse: {perrors[0].message}', case)
        return
    # (the Beancount parser sorts what it reads; the line numbers it records give the order in which PRINT emitted them)
    pentries = sorted(pentries, key=lambda e: e.meta['lineno'])
    got_n, exp_n = [normalise(e) for e in pentries], [normalise(e) for e in exp]
    if got_n != exp_n:
        k = next(i for i, (a, b) in enumerate(zip(got_n + [None], exp_n + [None])) if a != b)
        ctx.violation('c14.print_vs_period_view', f'{text}: printed directive {k} is {got_n[k] if k < len(got_n) else None}; the period view '
                      f'(OPEN, then CLOSE, then CLEAR) filtered by the expression has {exp_n[k] if k < len(exp_n) else None} ({len(got_n)} printed, {len(exp_n)} expected)', case)
        return
    # BALANCES / JOURNAL over the same view (period clauses only: their WHERE/FROM expressions are covered above)
    pclauses = period.clause_text(open_, close, clear)
    rows = period.posting_rows(view)
    try:
        # (no clause at all: the plain statements over the whole ledger)
        bal = conn.execute(f'BALANCES FROM {pclauses}' if pclauses else 'BALANCES').fetchall()
        jou = conn.execute(f'JOURNAL FROM {pclauses}' if pclauses else 'JOURNAL').fetchall()
    except Exception as exc:  # noqa: BLE001
        ctx.violation(f'c14.period_statement_failed.{monitors.classify_exception(exc)}', f'BALANCES/JOURNAL FROM {pclauses}: {exc!r}', case)
        return
    sums = {}
    for d, fl, a, pos_ in rows:
        sums.setdefault(a, []).append(pos_)
    if {a: i for a, i in bal} != {a: inv_of(v) for a, v in sums.items()}:
        bad = sorted(a for a in set(sums) | {a for a, _ in bal} if dict(bal).get(a) != (inv_of(sums[a]) if a in sums else None))
        ctx.violation('c14.balances_vs_period_view', f'BALANCES FROM {pclauses}: differs from the per-account sums over the period view for {bad[:3]}', dict(case, statement=f'BALANCES FROM {pclauses}'))
        return
    if [(j[0], j[1], j[4], j[5]) for j in jou] != rows:
        ctx.violation('c14.journal_vs_period_view', f'JOURNAL FROM {pclauses}: its register ({len(jou)} rows) differs from the postings of the period view ({len(rows)})',
                      dict(case, statement=f'JOURNAL FROM {pclauses}'))


def run(ctx):
    engine.bq()
    for n in range(ctx.pick(12, 500)):
        if ctx.out_of_time():
            break
        run_case(ctx, n)


def replay(ctx, case):
    engine.bq()
    run_case(ctx, case['replay'][1])


def finalize(merged):
    c = merged['counters']
    reasons = []
    for k in ('obs.print_through_shell', 'obs.balances_cases', 'obs.journal_cases', 'obs.print_cases', 'obs.print_full_reloads', 'obs.print_clause_cases', 'obs.period_reference_cases', 'obs.failed_first_statements'):
        if c.get(k, 0) == 0:
            reasons.append(f'{k} == 0')
    types = merged['sets'].get('printed_directive_types', set())
    if len(types) < 9:
        reasons.append(f'PRINT saw only directive types {sorted(types)}')
    return reasons

"""C12 — inventory aggregation is a homomorphism; the running balance is the prefix sum.

Oracles: Beancount Inventory arithmetic applied in the harness to the per-row values
fetched through the cursor; relations between recorded executions
(f(sum(position)) == sum(f(position)), sums over a partition add up to the whole,
last(balance) == sum(position)); M4 running-balance monitor (at most one add per row
context and row id, the added posting is the context's current posting).
"""
from .. import engine, ledgers, monitors
from ..values import show

ID = 'C12'
LEVEL = 'exploration'
RULE = ('Generated multi-currency ledgers with lots at cost (dates, labels), reducing sales, @/@@ conversions and price directives. '
        'Selections by WHERE (account regex, currency, year, flag, number sign), FROM filters and groupings (account, currency, '
        'year, flag, root). Homomorphism: sum over position/units/cost/value/convert/weight vs the harness Inventory sum of the '
        'fetched per-row values, f(sum(position)) vs sum(f(position)), group sums vs whole. Running balance: 1-3 references per row '
        '(bare, inside units()/cost(), as last(balance)), balance consulted in WHERE, and the adversarial shape with an IN-sub-query '
        'over #postings that itself evaluates balance between two balance targets; every cell compared with the prefix sum of the '
        'fetched positions. Distinct by (ledger digest, statement); non-trivial when the selection has >= 2 postings.')
ASSUMPTIONS = ['beancount.core.inventory.Inventory arithmetic and equality are the definition of an inventory sum',
               'value()/convert() use the price map built from the same ledger']

SELECTIONS = [
    '', 'WHERE account ~ "Assets"', 'WHERE account ~ "Expenses|Income"', 'WHERE currency = "USD"', 'WHERE currency != "USD"',
    'WHERE year = 2020', 'WHERE flag = "*"', 'WHERE number > 0', 'WHERE account ~ "Broker"', 'FROM year >= 2020', 'FROM flag = "*" WHERE number < 0',
    'WHERE cost_number IS NOT NULL', 'WHERE account ~ "Nope"', 'FROM has_account("Broker")',
    # selections over a period view (the same OPEN / CLOSE dates with and without CLEAR, so that they meet on one connection)
    'FROM CLEAR WHERE account ~ "Income|Expenses"', 'FROM CLEAR', 'FROM OPEN ON 2020-01-01 CLOSE ON 2021-01-01 CLEAR', 'FROM OPEN ON 2020-01-01 CLOSE ON 2021-01-01',
    'FROM CLOSE ON 2020-07-01 WHERE account ~ "Assets"', 'FROM CLOSE ON 2020-07-01 CLEAR WHERE account ~ "Income|Expenses|Equity"', 'FROM year >= 2019 CLEAR',
]
GROUPINGS = ['account', 'currency', 'year', 'flag', 'root(account, 1)', 'account, currency']
FUNCS = [('units', 'units({})'), ('cost', 'cost({})'), ('value', 'value({})'), ('convert_usd', 'convert({}, "USD")'),
         ('convert_eur', 'convert({}, "EUR")'), ('convert_dated', 'convert({}, "USD", 2020-06-30)'), ('value_dated', 'value({}, 2019-12-31)')]


def inv_sum(values):
    from beancount.core import inventory, amount, position
    inv = inventory.Inventory()
    for v in values:
        if v is None:
            continue
        if isinstance(v, inventory.Inventory):
            inv.add_inventory(v)
        elif isinstance(v, amount.Amount):
            inv.add_amount(v)
        else:
            inv.add_position(v)
    return inv


from decimal import Decimal as _D
_EPS = _D('1E-20')


def inv_close(a, b):
    """Inventory equality up to the last digits of 28-digit Decimal division (price conversions divide)."""
    if a == b:
        return True
    pa = {(p.units.currency, p.cost): p.units.number for p in a.get_positions()}
    pb = {(p.units.currency, p.cost): p.units.number for p in b.get_positions()}
    for k in pa.keys() | pb.keys():
        x, y = pa.get(k, _D(0)), pb.get(k, _D(0))
        if abs(x - y) > (abs(x) + 1) * _EPS:
            return False
    return True


def fetch(ctx, conn, text, case, mon=None):
    if mon is not None:
        mon.reset()
    try:
        cur = conn.execute(text)
        return cur.fetchall()
    except Exception as exc:  # noqa: BLE001
        ctx.violation(f'c12.query_failed.{monitors.classify_exception(exc)}', f'{text}: {type(exc).__name__}: {exc}', dict(case, statement=text))
        return None


def homomorphism(ctx, rng, conn, case):
    sel = rng.choice(SELECTIONS)
    rows = fetch(ctx, conn, f'SELECT position, weight, account, currency, year, flag, root(account, 1) AS r {sel}', case)
    if rows is None:
        return
    positions = [r[0] for r in rows]
    whole = inv_sum(positions)
    nontrivial = len(rows) >= 2
    # sum(position) / sum(weight) vs harness sums
    agg = fetch(ctx, conn, f'SELECT sum(position) AS s, sum(weight) AS w, count(*) AS n {sel}', case)
    if agg is None:
        return
    ctx.case((case['digest'], 'sum', sel), nontrivial)
    ctx.count('obs.homomorphism_cases')
    if not rows:
        if agg:
            ctx.violation('c12.sum_on_empty_selection', f'sum over an empty selection returned {agg}', dict(case, selection=sel))
        return
    if agg[0][0] != whole or agg[0][1] != inv_sum(r[1] for r in rows) or agg[0][2] != len(rows):
        ctx.violation('c12.sum_vs_inventory_sum', f'sum(position) {sel}: engine {agg[0][0]} harness {whole}', dict(case, selection=sel))
        return
    # f(sum(position)) == sum(f(position)) == harness sum of per-row f(position)
    for name, tmpl in FUNCS:
        fp = tmpl.format('position')
        per_row = fetch(ctx, conn, f'SELECT {fp} AS v {sel}', case)
        both = fetch(ctx, conn, f'SELECT {tmpl.format("sum(position)")} AS a, sum({fp}) AS b {sel}', case)
        if per_row is None or both is None:
            return
        exp = inv_sum(r[0] for r in per_row)
        ctx.count('obs.function_relations')
        ctx.seen('functions', name)
        a, b = both[0]
        exact = name in ('units', 'cost')
        if (exact and (a != b or b != exp)) or (not exact and not (inv_close(a, b) and inv_close(b, exp))):
            ctx.violation(f'c12.homomorphism.{name}', f'{name} {sel}: f(sum(position)) = {a} ; sum(f(position)) = {b} ; harness sum of per-row values = {exp}',
                          dict(case, selection=sel))
            return
    # sums over INVENTORY values: the per-group sums of a sub-query summed again, by several aggregates side by side
    g2 = rng.choice(['account', 'currency', 'flag'])
    parts = fetch(ctx, conn, f'SELECT {g2} AS g, sum(position) AS part {sel} GROUP BY {g2}', case)
    second = fetch(ctx, conn, f'SELECT sum(part) AS a, units(sum(part)) AS u, cost(sum(part)) AS c, sum(units(part)) AS su, count(part) AS n, sum(part) AS again '
                              f'FROM (SELECT {g2} AS g, sum(position) AS part {sel} GROUP BY {g2})', case)
    having = fetch(ctx, conn, f'SELECT sum(part) AS a FROM (SELECT {g2} AS g, year AS y, sum(position) AS part {sel} GROUP BY {g2}, year) GROUP BY y HAVING NOT empty(sum(part))', case)
    if parts is None or second is None or having is None:
        return
    ctx.count('obs.inventory_sum_cases')
    if second:
        from beancount.core import convert
        a, u, c, su, n_, again = second[0]
        if a != whole or again != whole or u != whole.reduce(convert.get_units) or c != whole.reduce(convert.get_cost) or su != u or n_ != len(parts):
            ctx.violation('c12.sum_of_inventories', f'sum over the per-{g2} inventories {sel}: sum(part) = {a} (again {again}), units {u}, cost {c}; whole selection sums to {whole}',
                          dict(case, selection=sel, grouping=g2))
            return
    if inv_sum(r[0] for r in having) != whole and rows:
        ctx.violation('c12.sum_of_inventories', f'per-year sums of per-{g2} inventories {sel} do not add up to the whole', dict(case, selection=sel, grouping=g2))
        return
    # partition additivity
    g = rng.choice(GROUPINGS)
    grouped = fetch(ctx, conn, f'SELECT {g}, sum(position) AS s, count(*) AS n {sel} GROUP BY {g}', case)
    if grouped is None:
        return
    nk = 2 if g == 'account, currency' else 1
    total = inv_sum(r[nk] for r in grouped)
    ctx.count('obs.partition_checks')
    ctx.count('obs.groups', len(grouped))
    if total != whole or sum(r[nk + 1] for r in grouped) != len(rows):
        ctx.violation('c12.partition_additivity', f'GROUP BY {g} {sel}: group sums add to {total}, whole is {whole}', dict(case, selection=sel, grouping=g))
        return
    # each group equals the harness sum of its members
    keyidx = {'account': [2], 'currency': [3], 'year': [4], 'flag': [5], 'root(account, 1)': [6], 'account, currency': [2, 3]}[g]
    members = {}
    for r in rows:
        members.setdefault(tuple(r[i] for i in keyidx), []).append(r[0])
    for r in grouped:
        if r[nk] != inv_sum(members.get(tuple(r[:nk]), [])):
            ctx.violation('c12.group_sum', f'GROUP BY {g} {sel}: group {r[:nk]} sums to {r[nk]}, harness {inv_sum(members.get(tuple(r[:nk]), []))}',
                          dict(case, selection=sel, grouping=g))
            return


BALANCE_TARGETS = [
    ('position, balance', [1]),
    ('balance, position', [0]),
    ('balance, position, balance', [0, 2]),
    ('balance, account, balance, position, balance', [0, 2, 4]),
    ('position, units(balance) AS u, balance', [2]),
    ('position, balance, cost(balance) AS c, account', [1]),
    ('position, balance, account IN (SELECT account FROM #postings WHERE NOT empty(balance)) AS m, balance', [1, 3]),
    ('balance, number IN (SELECT number FROM #postings WHERE empty(balance) OR number > 0) AS m, position, balance', [0, 3]),
    ('position, balance, year IN (SELECT year FROM (SELECT year, balance FROM #postings)) AS m, balance', [1, 3]),
]


def running_balance(ctx, rng, conn, case, mon):
    sel = rng.choice([s for s in SELECTIONS])
    targets, bidx = rng.choice(BALANCE_TARGETS)
    text = f'SELECT {targets} {sel}'
    if rng.random() < 0.35:
        # a statement that raises part-way through a scan in which it has evaluated balance for some rows comes first
        failing = rng.choice(['SELECT balance, date_add(date, 99999999 * (year - 2019)) AS x', 'SELECT date, splitcomp(account, ":", 2) AS c, balance',
                              'SELECT balance, account FROM OPEN ON 2019-06-01 WHERE str(number) ~ "("', 'SELECT account, last(balance) AS b, max(date_add(date, 99999999 * month)) AS m GROUP BY account'])
        try:
            conn.execute(failing).fetchall()
            ctx.count('obs.failing_statement_did_not_fail')
        except Exception:  # noqa: BLE001
            ctx.count('obs.failed_statements_before_balance')
    mon.reset()
    rows = fetch(ctx, conn, text, case, mon)
    if rows is None:
        return
    pidx = [t.strip().split(' ')[0] for t in targets.split(', ')].index('position') if 'position' in targets else None
    names = [t.strip() for t in targets.split(',')]
    pidx = next(i for i, t in enumerate(_split_targets(targets)) if t == 'position')
    ctx.case((case['digest'], text), len(rows) >= 2)
    ctx.count('obs.balance_cases')
    ctx.count('obs.balance_rows', len(rows))
    ctx.count(f'obs.balance_references.{len(bidx)}')
    if 'SELECT' in targets:
        ctx.count('obs.balance_with_subquery_between')
    ctx.count('obs.balance_monitor_events', mon.balance_events)
    if mon.balance_violations:
        ctx.violation('c12.balance_added_twice_in_a_row', f'{text}: {mon.balance_violations[0]}', dict(case, statement=text))
        return
    from beancount.core import inventory
    run = inventory.Inventory()
    for n, r in enumerate(rows):
        run.add_position(r[pidx])
        for b in bidx:
            if r[b] != run:
                ctx.violation('c12.balance_not_prefix_sum', f'{text}: row {n} balance (target {b}) = {r[b]} ; prefix sum of position = {run}',
                              dict(case, statement=text))
                return
    # balance referenced only inside a function call, after an operand that is NULL on some rows: the row counts all the same
    first = rng.choice(['cost_currency', 'currency(price)', 'str(entry_meta("nothing-of-the-kind"))', 'payee', 'cost_label'])
    frows = fetch(ctx, conn, f'SELECT position, {first} AS c, only({first}, balance) AS o {sel}', case)
    if frows is not None:
        ctx.count('obs.balance_inside_function_cases')
        frun = inventory.Inventory()
        for n, r in enumerate(frows):
            frun.add_position(r[0])
            ctx.count('obs.balance_inside_function_null_operand_rows' if r[1] is None else 'obs.balance_inside_function_rows')
            exp = None if r[1] is None else frun.get_currency_units(r[1])
            if r[2] != exp:
                ctx.violation('c12.balance_inside_function', f'only({first}, balance) {sel}: row {n} gives {r[2]} ; the prefix sum of position holds {exp} '
                              f'({first} = {r[1]!r})', dict(case, statement=f'SELECT position, {first} AS c, only({first}, balance) AS o {sel}'))
                return
    # last(balance) == sum(position) of the same selection
    agg = fetch(ctx, conn, f'SELECT last(balance) AS b, sum(position) AS s, count(*) AS n {sel}', case)
    if agg is None:
        return
    if rows and (agg[0][0] != agg[0][1] or agg[0][1] != run):
        ctx.violation('c12.last_balance_vs_sum', f'{sel}: last(balance) = {agg[0][0]} ; sum(position) = {agg[0][1]} ; harness = {run}', dict(case, selection=sel))
        return
    # balance consulted first in the condition: sum over all postings scanned so far
    allrows = fetch(ctx, conn, 'SELECT position, account FROM #postings', case)
    consulted = fetch(ctx, conn, 'SELECT position, balance, account FROM #postings WHERE NOT empty(balance) AND account ~ "Assets"', case)
    if allrows is None or consulted is None:
        return
    run = inventory.Inventory()
    exp = []
    for p, a in allrows:
        run.add_position(p)
        if not run.is_empty() and 'assets' in a.lower():
            exp.append((p, inventory.Inventory(run.get_positions()), a))
    ctx.count('obs.balance_in_condition_cases')
    if [(r[0], r[1], r[2]) for r in consulted] != exp:
        ctx.violation('c12.balance_in_condition', 'balance consulted in WHERE is not the sum over all postings scanned so far', case)


def constructed_balance(ctx, n, mon):
    """Directives built directly (postings without metadata, equal postings in a row): balance is the prefix sum all the same."""
    from beancount.core import inventory
    from . import c11
    rng = ctx.rng('constructed', n)
    led = ledgers.gen_ledger(rng, ntxn=rng.randint(0, 6), with_queries=False)
    entries, errors, options = led.loaded
    entries = c11.constructed_entries(rng, entries)
    conn = engine.connection(ledger=(entries, errors, options))
    case = {'replay': ['constructed', n], 'ledger': led.text, 'constructed': True, 'digest': f'constructed/{n}'}
    for sel in ('', 'WHERE account = "Expenses:Food"', 'WHERE account ~ "Food|Cash"', 'WHERE number = 3.50', 'FROM year >= 2000 WHERE currency = "USD"',
                'WHERE account = "Expenses:Food" ORDER BY date DESC'):
        text = f'SELECT position, balance, date {sel}'
        rows = fetch(ctx, conn, text, case)
        if rows is None:
            continue
        ctx.count('obs.constructed_balance_cases')
        ctx.case((case['digest'], text), len(rows) >= 2)
        run = inventory.Inventory()
        # (ORDER BY sorts the finished rows: the balance belongs to the scan order)
        # (a stable sort by date restores it: rows of one date kept their scan order under ORDER BY date DESC)
        scan = rows if 'ORDER BY' not in sel else sorted(rows, key=lambda r: r[2])
        for i, r in enumerate(scan):
            run.add_position(r[0])
            if r[1] != run:
                ctx.violation('c12.balance_not_prefix_sum', f'{text} (constructed directives): row {i} balance = {r[1]} ; prefix sum of position = {run}', dict(case, statement=text))
                return
        agg = fetch(ctx, conn, f'SELECT last(balance) AS b, sum(position) AS s {sel.split(" ORDER BY")[0]}', case)
        if agg and rows and agg[0][0] != agg[0][1]:
            ctx.violation('c12.last_balance_vs_sum', f'{sel} (constructed directives): last(balance) = {agg[0][0]} ; sum(position) = {agg[0][1]}', dict(case, selection=sel))
            return


def _split_targets(s):
    out, depth, cur = [], 0, ''
    for ch in s:
        if ch == '(':
            depth += 1
        elif ch == ')':
            depth -= 1
        if ch == ',' and depth == 0:
            out.append(cur.strip())
            cur = ''
        else:
            cur += ch
    out.append(cur.strip())
    return out


def twin_sessions(ctx, n, mon):
    """History across connections: two ledgers of the same shape (the second has every amount doubled), the same point and
    range selections executed alternately on both. position / weight / balance / sum(position) of every execution are
    compared with values computed from that ledger's directives: nothing may be carried over from the scan before."""
    from beancount.core import data, convert, inventory
    from beancount.core.amount import Amount
    from beancount.core.position import Position
    rng = ctx.rng('twin', n)
    led = ledgers.gen_ledger(rng, ntxn=rng.randint(3, ctx.pick(10, 30)))
    entries, errors, options = led.loaded
    factor = rng.choice([2, 3, -1])
    twin = []
    for e in entries:
        if isinstance(e, data.Transaction):
            e = e._replace(postings=[p._replace(units=Amount(p.units.number * factor, p.units.currency)) for p in e.postings])
        twin.append(e)
    ledgers_ = {'A': entries, 'B': twin}
    conns = {k: engine.connection(ledger=(v, errors, options)) for k, v in ledgers_.items()}
    flat = {k: [(t, p) for t in v if isinstance(t, data.Transaction) for p in t.postings] for k, v in ledgers_.items()}
    if not flat['A']:
        return
    case = {'replay': ['twin', n], 'ledger': led.text, 'twin': f'every posting amount multiplied by {factor}'}
    order = ['A', 'B', 'A', 'B', 'B', 'A']
    for _ in range(ctx.pick(4, 10)):
        t, p = rng.choice(flat['A'])
        kind = rng.choice(['point', 'point', 'point', 'from-date', 'account', 'all'])
        if kind == 'point':
            cond = f'WHERE date = {t.date} AND account = "{p.account}"'
            pred = lambda tt, pp, d=t.date, a=p.account: tt.date == d and pp.account == a          # noqa: E731
        elif kind == 'from-date':
            cond = f'WHERE date >= {t.date}'
            pred = lambda tt, pp, d=t.date: tt.date >= d                                             # noqa: E731
        elif kind == 'account':
            cond = f'WHERE account = "{p.account}"'
            pred = lambda tt, pp, a=p.account: pp.account == a                                       # noqa: E731
        else:
            cond, pred = '', (lambda tt, pp: True)
        for which in rng.sample(order, len(order)):
            conn = conns[which]
            sel = [(tt, pp) for tt, pp in flat[which] if pred(tt, pp)]
            exp_pos = [Position(pp.units, pp.cost) for _, pp in sel]
            rows = fetch(ctx, conn, f'SELECT position, weight, number, balance {cond}', case, mon)
            agg = fetch(ctx, conn, f'SELECT sum(position) AS s, units(sum(position)) AS u, last(balance) AS b, count(*) AS n {cond}', case, mon)
            if rows is None or agg is None:
                return
            ctx.count('obs.twin_executions')
            ctx.count(f'obs.twin_selection_size.{min(len(sel), 3)}')
            ctx.case((led.text, which, cond), len(sel) >= 1)
            run = inventory.Inventory()
            if len(rows) != len(sel):
                ctx.violation('c12.twin_row_count', f'ledger {which} {cond}: {len(rows)} rows, the directives hold {len(sel)}', dict(case, statement=cond, ledger_used=which))
                return
            for i, (r, ep, (tt, pp)) in enumerate(zip(rows, exp_pos, sel)):
                run.add_position(ep)
                if r[0] != ep or r[1] != convert.get_weight(pp) or r[2] != pp.units.number or r[3] != run:
                    ctx.violation('c12.twin_row_value',
                                  f'ledger {which} (executed in alternation with its twin) SELECT position, weight, number, balance {cond}: row {i} = {show(r)}; '
                                  f'the directives give position {ep}, weight {convert.get_weight(pp)}, running balance {run}',
                                  dict(case, statement=cond, ledger_used=which))
                    return
            if sel and (agg[0][0] != run or agg[0][2] != run or agg[0][3] != len(sel) or agg[0][1] != run.reduce(convert.get_units)):
                ctx.violation('c12.twin_sum', f'ledger {which} {cond}: sum(position) = {agg[0][0]}, last(balance) = {agg[0][2]}; the directives sum to {run}',
                              dict(case, statement=cond, ledger_used=which))
                return
            if mon.balance_violations:
                ctx.violation('c12.balance_added_twice_in_a_row', f'{cond}: {mon.balance_violations[0]}', dict(case, statement=cond))
                return


def run_case(ctx, n, mon):
    rng = ctx.rng('case', n)
    led = ledgers.gen_ledger(rng, ntxn=rng.randint(3, ctx.pick(16, 60)))
    conn = engine.connection(ledger=led.loaded)
    from ..core import stable_hash
    case = {'replay': ['case', n], 'ledger': led.text, 'digest': stable_hash(led.text)[:12]}
    mon.enabled = True
    try:
        for _ in range(ctx.pick(2, 4)):
            homomorphism(ctx, rng, conn, case)
        for _ in range(ctx.pick(4, 8)):
            running_balance(ctx, rng, conn, case, mon)
        twin_sessions(ctx, n, mon)
    finally:
        mon.enabled = False
    if len(ctx.samples) < 2:
        ctx.sample({'ledger_head': led.text[:500], 'statements': ['SELECT balance, position, balance WHERE account ~ "Assets"', 'SELECT value(sum(position)), sum(value(position))']})


def run(ctx):
    mon = monitors.install()
    for n in range(ctx.pick(10, 300)):
        if ctx.out_of_time():
            break
        run_case(ctx, n, mon)
        if n % 3 == 0:
            constructed_balance(ctx, n, mon)


def replay(ctx, case):
    mon = monitors.install()
    if case['replay'][0] == 'constructed':
        constructed_balance(ctx, case['replay'][1], mon)
        return
    if case['replay'][0] == 'twin':
        mon.enabled = True
        twin_sessions(ctx, case['replay'][1], mon)
        mon.enabled = False
        return
    run_case(ctx, case['replay'][1], mon)


def finalize(merged):
    c = merged['counters']
    reasons = []
    for k in ('obs.inventory_sum_cases', 'obs.homomorphism_cases', 'obs.function_relations', 'obs.partition_checks', 'obs.balance_cases', 'obs.balance_monitor_events',
              'obs.balance_with_subquery_between', 'obs.failed_statements_before_balance', 'obs.twin_executions', 'obs.twin_selection_size.1', 'obs.twin_selection_size.3', 'obs.balance_references.2', 'obs.balance_references.3', 'obs.balance_in_condition_cases'):
        if c.get(k, 0) == 0:
            reasons.append(f'{k} == 0')
    return reasons

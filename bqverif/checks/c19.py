"""C19 — the shell prints what the API returns; settings behave as a typed key-value store.

History oracle over recorded batch sessions: BQLShell.onecmd is driven line by line
with the shell's output file, stdout and stderr captured and with recorders on the
shell's parse / execute / do_* methods; every line's observations are compared with
the settings model R7 and with the selected renderer applied in the harness to the
API result. The command-line entry point is driven through click's CliRunner.
"""
import contextlib
import io
import os
import shutil
import tempfile

from .. import engine, ledgers
from ..values import show

ID = 'C19'
LEVEL = 'exploration'
RULE = ('Sessions of 5-30 lines over generated ledgers with query directives, mixing .set (every setting x valid and invalid '
        'spellings, unknown names incl. attribute names that are not settings, wrong arity), statements of all four kinds, .run (name, '
        'missing, *, extra arguments), .tables, .describe, .explain, .help, .errors, unknown dot-commands and legacy un-dotted '
        'commands. CLI: -f/-m/-o/-q combinations on ledgers with and without errors. A session is distinct by its lines and ledger; '
        'non-trivial when it changes >= 2 settings and prints >= 2 statement results.')
ASSUMPTIONS = ['batch (non-interactive) mode only, as the property quantifies',
               'for BALANCES/JOURNAL named queries and for named SELECTs without any FROM clause either behaviour of the default CLOSE date is admitted',
               'shell lines with unbalanced quotes are not generated (they are not parseable as shell lines)']

DEFAULTS = {'boxed': False, 'expand': False, 'format': 'text', 'narrow': True, 'nullvalue': '', 'numberify': False, 'pager': True, 'spaced': False, 'unicode': False}
TRUE_WORDS = ['1', 'true', 't', 'yes', 'y', 'on', 'TRUE', 'On', ' yes']
FALSE_WORDS = ['0', 'false', 'f', 'no', 'n', 'off', 'FALSE', 'No']
BAD_BOOL = ['2', 'maybe', 'tru', '', 'yess', '-1', 'null', 'ye', 'es', 'als', 'o', 'rue', 'fals', 'of', 'e', 'tt', '10', '01']
NOT_SETTINGS = ['todict', 'getstr', 'setstr', '_parse_bool', '_parse_format', '__class__', '__dict__', 'nosuch', 'Boxed', 'format ']

STATEMENTS = [
    'SELECT account, sum(position) AS total GROUP BY account ORDER BY account',
    'SELECT date, narration, position WHERE account ~ "Expenses" ORDER BY date LIMIT 5',
    'SELECT account, balance WHERE account ~ "Nope"',
    'SELECT date, tags, links, payee WHERE year = 2020 LIMIT 4',
    'SELECT account, year, sum(position) AS s GROUP BY 1, 2 PIVOT BY 1, 2',
    'SELECT account, sum(position) AS s, count(*) AS n FROM OPEN ON 2020-01-01 CLOSE ON 2021-01-01 GROUP BY account ORDER BY account',
    'BALANCES', 'BALANCES AT cost FROM year = 2020', 'JOURNAL "Cash"', 'JOURNAL "Bank" AT units FROM year = 2020',
    'PRINT FROM year = 2020 AND flag = "!"', 'PRINT FROM type = "note"',
    'select account, number where number > 100 order by number desc limit 3',
    'SELECT number, cost_number, price WHERE cost_number IS NOT NULL',
    'SELECT account, sum(position) AS s FROM CLEAR GROUP BY account ORDER BY account',
    'SELECT account, sum(position) AS s FROM OPEN ON 2020-01-01 CLEAR GROUP BY account ORDER BY account',
    'SELECT account, sum(position) AS s FROM year >= 2019 CLEAR GROUP BY account ORDER BY account',
    'SELECT account, sum(position) AS s FROM CLOSE GROUP BY account ORDER BY account',
    'SELECT account, sum(position) AS s FROM OPEN ON 2019-06-01 CLOSE CLEAR GROUP BY account ORDER BY account',
    'JOURNAL', 'BALANCES WHERE account ~ "Assets"', 'SELECT DISTINCT * FROM #commodities', 'SELECT * FROM #events', 'SELECT date, comment FROM #notes',
]


def say_bool(v):
    return 'true' if v else 'false'


def model_getstr(settings, name):
    v = settings[name]
    if isinstance(v, bool):
        return say_bool(v)
    return repr(v)


class Session:
    def __init__(self, path, fmt='text', numberify=False):
        from beanquery import shell
        self.out = io.StringIO()
        self.events = []
        with contextlib.redirect_stdout(io.StringIO()), contextlib.redirect_stderr(io.StringIO()):
            self.shell = shell.BQLShell(path, self.out, interactive=False, runinit=False, format=fmt, numberify=numberify)
        self.settings = dict(DEFAULTS, format=fmt, numberify=numberify)
        self._instrument()

    def _instrument(self):
        sh = self.shell
        for name in dir(sh):
            if name.startswith('do_') or name in ('parse', 'execute'):
                orig = getattr(sh, name)

                def rec(*a, _n=name, _o=orig, **kw):
                    self.events.append(_n)
                    return _o(*a, **kw)
                setattr(sh, name, rec)
        ctx_parse = sh.context.parse

        def parse(text):
            self.events.append('context.parse')
            return ctx_parse(text)
        sh.context.parse = parse

    def line(self, text):
        """-> (outfile text, stdout, stderr, exception or None, events)"""
        self.events = []
        self.out.seek(0)
        self.out.truncate()
        so, se = io.StringIO(), io.StringIO()
        exc = None
        with contextlib.redirect_stdout(so), contextlib.redirect_stderr(se):
            try:
                self.shell.onecmd(text)
            except Exception as e:  # noqa: BLE001
                exc = e
        return self.out.getvalue(), so.getvalue(), se.getvalue(), exc, list(self.events)

    def actual_settings(self):
        return dict(self.shell.settings.todict())


def expected_statement_output(sess, text, close_default=None):
    """The selected renderer applied in the harness to the API result with the MODEL's settings."""
    from beanquery import shell as shell_mod, parser
    from beanquery.numberify import numberify_results
    from beanquery.query_execute import execute_print
    from beanquery import compiler
    conn = sess.shell.context
    import beanquery
    stmt = parser.parse(text)
    outs = []
    variants = [stmt]
    if close_default is not None and isinstance(stmt, parser.ast.Select) and isinstance(stmt.from_clause, parser.ast.From) and not stmt.from_clause.close:
        stmt.from_clause.close = close_default
    out = io.StringIO()
    if isinstance(stmt, parser.ast.Print):
        execute_print(compiler.compile(conn, stmt), out)
        return out.getvalue()
    cur = beanquery.Cursor(conn).execute(stmt)
    desc, rows = cur.description, cur.fetchall()
    dcontext = conn.options['dcontext']
    if sess.settings['numberify']:
        desc, rows = numberify_results(desc, rows, dcontext.build())
    from beanquery import query_render
    if sess.settings['format'] == 'text':
        if not rows:
            return '(empty)\n'
        query_render.render_text(desc, rows, dcontext, out, **sess.settings)
    else:
        query_render.render_csv(desc, rows, dcontext, out, **sess.settings)
    return out.getvalue()


def gen_lines(rng, query_names):
    lines = []
    n = rng.randint(5, 30)
    for _ in range(n):
        r = rng.random()
        if r < 0.3:
            name = rng.choice(list(DEFAULTS))
            rr = rng.random()
            if name == 'format':
                val = rng.choice(['text', 'csv', 'csv', 'json', 'TEXT', '']) if rr < 0.8 else None
            elif name == 'nullvalue':
                val = rng.choice(['NULL', '-', 'n/a', '', '0', ' n/a ', '  ', ' x', 'y ', 'two words']) if rr < 0.8 else None
            else:
                val = rng.choice(TRUE_WORDS + FALSE_WORDS + BAD_BOOL) if rr < 0.85 else None
            dot = '.' if rng.random() < 0.85 else ''
            if val is None:
                lines.append(('set-show', f'{dot}set {name}', name, None, dot))
            else:
                quoted = f'"{val}"' if (val == '' or ' ' in val or rng.random() < 0.2) else val
                lines.append(('set', f'{dot}set {name} {quoted}', name, val, dot))
        elif r < 0.36:
            lines.append(('set-all', '.set', None, None, '.'))
        elif r < 0.42:
            name = rng.choice(NOT_SETTINGS)
            if rng.random() < 0.5:
                lines.append(('set-bad-name', f'.set "{name}" 1' if ' ' in name else f'.set {name} 1', name, '1', '.'))
            else:
                lines.append(('set-show-bad-name', f'.set "{name}"' if ' ' in name else f'.set {name}', name, None, '.'))
        elif r < 0.45:
            lines.append(('set-arity', '.set boxed 1 2', None, None, '.'))
        elif r < 0.7:
            lines.append(('statement', rng.choice(STATEMENTS) + rng.choice(['', ';', ' ;']), None, None, ''))
        elif r < 0.8:
            rr = rng.random()
            if rr < 0.55 and query_names:
                lines.append(('run', f'.run {rng.choice(query_names)}' + rng.choice(['', ';', ' ']), None, None, '.'))
            elif rr < 0.7:
                lines.append(('run-missing', '.run nosuchquery', None, None, '.'))
            elif rr < 0.8:
                lines.append(('run-extra', f'.run {query_names[0] if query_names else "x"} extra', None, None, '.'))
            elif rr < 0.9:
                lines.append(('run-list', '.run', None, None, '.'))
            else:
                lines.append(('run-all', '.run *', None, None, '.'))
        elif r < 0.9:
            lines.append(('command', rng.choice(['.tables', '.describe postings', '.describe position', '.explain SELECT account, sum(number) GROUP BY 1',
                                                 '.help', '.help select', '.errors', '.history', '.reload', 'help']), None, None, '.'))
        else:
            lines.append(('unknown', rng.choice(['.nosuch', '.select 1', '.balances', '.tabels', '.SET boxed 1', '.run2 x', '.print', '..set boxed true', '...set nullvalue NULL',
                                                 '..set format csv', '..tables', '..help', '.set.boxed true', '.settings']), None, None, '.'))
    return lines


def parse_bool(val):
    norm = val.strip().lower()
    if norm in {'1', 'true', 't', 'yes', 'y', 'on'}:
        return True
    if norm in {'0', 'false', 'f', 'no', 'n', 'off'}:
        return False
    return None


def systematic_lines(part, nparts):
    """All 2^5 combinations of the boolean rendering settings x both formats, each followed by statements."""
    import itertools
    names = ['boxed', 'expand', 'narrow', 'spaced', 'unicode']
    lines = []
    combos = list(itertools.product([False, True], repeat=5))
    for ci, combo in enumerate(combos):
        if ci % nparts != part:
            continue
        for fmt in ('text', 'csv'):
            lines.append(('set', f'.set format {fmt}', 'format', fmt, '.'))
            for name, val in zip(names, combo):
                word = 'true' if val else 'off'
                lines.append(('set', f'.set {name} {word}', name, word, '.'))
            lines.append(('set', '.set nullvalue "-"' if ci % 2 else '.set nullvalue ""', 'nullvalue', '-' if ci % 2 else '', '.'))
            lines.append(('statement', STATEMENTS[0], None, None, ''))
            lines.append(('statement', STATEMENTS[3], None, None, ''))
            lines.append(('statement', STATEMENTS[2], None, None, ''))
    return lines


def run_session(ctx, n, systematic=None):
    from beancount.core import data
    rng = ctx.rng('session', n)
    led = ledgers.gen_ledger(rng, ntxn=rng.randint(5, 14))
    tmp = tempfile.mkdtemp(prefix='bqv-c19-')
    try:
        path = os.path.join(tmp, 'ledger.beancount')
        with open(path, 'w') as f:
            f.write(led.text)
        fmt = rng.choice(['text', 'text', 'csv'])
        numberify = rng.random() < 0.2
        sess = Session(path, fmt, numberify)
        queries = {e.name: e for e in led.entries if isinstance(e, data.Query)}
        lines = gen_lines(rng, sorted(queries)) if systematic is None else systematic_lines(*systematic)
        if systematic is not None:
            ctx.count('obs.systematic_setting_combinations', len(lines) // 18)
        case = {'replay': ['session', n], 'ledger': led.text, 'lines': [l[1] for l in lines], 'format': fmt, 'numberify': numberify}
        changed = 0
        printed = 0
        for step, (kind, text, name, val, dot) in enumerate(lines):
            before = sess.actual_settings()
            out, so, se, exc, events = sess.line(text)
            after = sess.actual_settings()
            where = f'line {step} {text!r}'
            ctx.count('obs.lines')
            ctx.count(f'obs.kind.{kind}')
            problem = None
            mech = 'c19.session'
            reached_parser = 'context.parse' in events
            reached_do = [e for e in events if e.startswith('do_')]
            if kind == 'set':
                exp = dict(sess.settings)
                if name == 'format':
                    valid = val in ('text', 'csv')
                    newv = val
                elif name == 'nullvalue':
                    valid, newv = True, val
                else:
                    b = parse_bool(val)
                    valid, newv = b is not None, b
                if valid:
                    exp[name] = newv
                    changed += exp != sess.settings
                    if after != exp:
                        problem, mech = f'valid .set {name} {val!r}: settings are {after}, expected {exp}', 'c19.set_valid'
                    elif se.strip() and 'deprecated' not in se:
                        problem, mech = f'valid .set printed an error: {se.strip()!r}', 'c19.set_valid'
                    sess.settings = exp
                else:
                    if after != before:
                        problem, mech = f'invalid value {val!r} for {name} changed the settings: {before} -> {after}', 'c19.set_invalid_changes'
                    elif 'error' not in se.lower() and exc is None:
                        problem, mech = f'invalid value {val!r} for {name} produced no error message', 'c19.set_invalid_silent'
                    elif exc is not None and not isinstance(exc, engine.bq().ProgrammingError):
                        problem, mech = f'invalid value raised {type(exc).__name__}: {exc}', 'c19.set_invalid_exception'
                if reached_parser:
                    problem, mech = 'a .set command reached the query parser', 'c19.command_parsed_as_query'
            elif kind in ('set-bad-name', 'set-show-bad-name', 'set-arity'):
                if after != before:
                    problem, mech = f'settings changed: {before} -> {after}', 'c19.set_invalid_changes'
                elif exc is not None:
                    mech = 'c19.set_unknown_name_exception'
                    problem = f'raised {type(exc).__name__}: {exc}'
                elif 'error' not in se.lower():
                    mech = 'c19.set_unknown_name_no_error'
                    problem = f'no error message (outfile {out.strip()!r}, stderr {se.strip()!r})'
            elif kind == 'set-show':
                exp_line = f'{name}: {model_getstr(sess.settings, name)}'
                if out.strip() != exp_line:
                    problem, mech = f'echo {out.strip()!r}, model says {exp_line!r}', 'c19.set_echo'
            elif kind == 'set-all':
                exp_lines = [f'{k}: {model_getstr(sess.settings, k)}' for k in sess.settings]
                if sorted(out.strip().splitlines()) != sorted(exp_lines):
                    problem, mech = f'.set echo {out.strip().splitlines()} differs from the model {exp_lines}', 'c19.set_echo'
            elif kind == 'statement':
                stmt_text = text
                try:
                    exp_out = expected_statement_output(sess, stmt_text)
                except Exception as e:  # noqa: BLE001
                    exp_out = None
                    exp_exc = e
                printed += 1
                if exp_out is None:
                    if exc is None or type(exc) is not type(exp_exc):
                        problem, mech = f'API raises {type(exp_exc).__name__} but the shell printed {out[:80]!r} / raised {exc!r}', 'c19.statement_error_differs'
                elif exc is not None:
                    problem, mech = f'shell raised {type(exc).__name__}: {exc}', 'c19.statement_raised'
                elif out != exp_out:
                    problem, mech = f'shell output differs from the renderer applied to the API result with settings {sess.settings}:\n--- shell\n{out[:400]}\n--- expected\n{exp_out[:400]}', 'c19.statement_output'
                elif sess.settings['format'] == 'text' and exp_out.strip() == '(empty)':
                    ctx.count('obs.empty_results')
                if reached_do:
                    problem, mech = f'a statement reached command handlers {reached_do}', 'c19.query_run_as_command'
                if not reached_parser:
                    problem, mech = 'a statement never reached the parser', 'c19.statement_not_parsed'
            elif kind == 'run':
                qname = text.split()[1].rstrip(';')
                q = queries[qname]
                printed += 1
                try:
                    exp_plain = expected_statement_output(sess, q.query_string)
                    exp_closed = expected_statement_output(sess, q.query_string, close_default=q.date)
                except Exception as e:  # noqa: BLE001
                    exp_plain = exp_closed = None
                from beanquery import parser
                st = parser.parse(q.query_string)
                is_sel_from = isinstance(st, parser.ast.Select) and isinstance(st.from_clause, parser.ast.From)
                admissible = [exp_closed] if is_sel_from else [exp_plain, exp_closed]
                if exc is not None:
                    problem, mech = f'.run {qname} raised {type(exc).__name__}: {exc}', 'c19.run_raised'
                elif out not in admissible:
                    problem, mech = (f'.run {qname} differs from typing the query text (CLOSE ON {q.date} by default):\n--- shell\n{out[:300]}\n--- expected\n'
                                     f'{(admissible[0] or "")[:300]}'), 'c19.run_output'
                ctx.count('obs.run_with_default_close' if is_sel_from and not st.from_clause.close else 'obs.run_other')
            elif kind in ('run-missing', 'run-extra', 'unknown'):
                if 'error' not in se.lower():
                    problem, mech = f'no error message for {text!r} (stderr {se.strip()!r}, out {out.strip()[:60]!r}, exc {exc!r})', 'c19.no_error_message'
                if after != before:
                    problem, mech = 'settings changed', 'c19.set_invalid_changes'
                if reached_parser or 'execute' in events:
                    problem, mech = f'{text!r} reached the query parser/executor', 'c19.command_parsed_as_query'
            elif kind in ('command', 'run-list', 'run-all'):
                if kind == 'command' and not text.startswith('.explain') and reached_parser:
                    problem, mech = f'{text!r} reached the query parser', 'c19.command_parsed_as_query'
                if exc is not None and kind == 'command':
                    problem, mech = f'{text!r} raised {type(exc).__name__}: {exc}', 'c19.command_raised'
                if after != before:
                    problem, mech = 'settings changed', 'c19.set_invalid_changes'
            # every line: the shell's settings equal the model
            if problem is None and sess.actual_settings() != sess.settings:
                problem, mech = f'settings {sess.actual_settings()} differ from the model {sess.settings}', 'c19.settings_model'
            if problem:
                ctx.violation(mech, f'{where}: {problem}', dict(case, step=step))
                break
        ctx.case(('session', tuple(l[1] for l in lines), n), changed >= 2 and printed >= 2)
        ctx.count('obs.sessions')
        if len(ctx.samples) < 3 and changed >= 2 and printed >= 2:
            ctx.sample({'lines': [l[1] for l in lines][:12], 'final_settings': sess.settings})
    finally:
        shutil.rmtree(tmp, ignore_errors=True)


BAD_LEDGER = """
2020-01-01 open Assets:Cash
2020-01-01 open Expenses:Food
2020-01-05 * "unbalanced"
  Assets:Cash   -10.00 USD
  Expenses:Food   9.00 USD
2020-01-06 * "unknown account"
  Assets:Cash   -5.00 USD
  Expenses:Nope   5.00 USD
2020-01-07 * "fine"
  Assets:Cash   -1.00 USD
  Expenses:Food   1.00 USD
"""


def run_cli(ctx, n):
    from click.testing import CliRunner
    from beanquery import shell
    import inspect
    rng = ctx.rng('cli', n)
    tmp = tempfile.mkdtemp(prefix='bqv-c19-cli-')
    try:
        good = rng.random() < 0.5
        led = ledgers.gen_ledger(rng, ntxn=8)
        path = os.path.join(tmp, 'l.beancount')
        with open(path, 'w') as f:
            f.write(led.text if good else BAD_LEDGER)
        fmt = rng.choice([None, 'text', 'csv'])
        numberify = rng.random() < 0.4
        quiet = rng.random() < 0.5
        to_file = rng.random() < 0.4
        query = rng.choice(['SELECT account, sum(position) AS s GROUP BY account ORDER BY account', 'SELECT date, account, number ORDER BY date, account LIMIT 4',
                            'SELECT account, position WHERE account ~ "Nope"'])
        args = [path, query]
        if fmt:
            args = (['-f', fmt] if rng.random() < 0.6 else [f'--format={fmt}']) + args
        if numberify:
            args = ['-m'] + args
        if quiet:
            args = ['-q'] + args
        # the name of the output file says nothing about the format: -f does (default text)
        outpath = os.path.join(tmp, rng.choice(['out.txt', 'result.csv', 'report.2022.csv', 'table.text', 'noextension', 'x.beancount']))
        if to_file:
            args = [rng.choice(['-o', '--output']), outpath] + args
        try:
            runner = CliRunner(mix_stderr=False) if 'mix_stderr' in inspect.signature(CliRunner.__init__).parameters else CliRunner()
        except Exception:  # noqa: BLE001
            runner = CliRunner()
        res = runner.invoke(shell.main, args)
        case = {'replay': ['cli', n], 'args': args[:-2] + ['<ledger>', query], 'good_ledger': good}
        ctx.case(('cli', tuple(args[:-2]), query, good), True)
        ctx.count('obs.cli_invocations')
        stdout = res.stdout
        try:
            stderr = res.stderr
        except Exception:  # noqa: BLE001
            stderr = ''
        if res.exception is not None and not isinstance(res.exception, SystemExit):
            ctx.violation('c19.cli_raised', f'main{args[:-2]} raised {type(res.exception).__name__}: {res.exception}', case)
            return
        # expected output through the API
        import beanquery
        from beanquery.numberify import numberify_results
        conn = beanquery.connect('beancount:' + path)
        cur = conn.execute(query)
        desc, rows = cur.description, cur.fetchall()
        dcontext = conn.options['dcontext']
        if numberify:
            desc, rows = numberify_results(desc, rows, dcontext.build())
        exp = io.StringIO()
        settings = dict(DEFAULTS, format=fmt or 'text', numberify=numberify)
        from beanquery import query_render
        if settings['format'] == 'text':
            if rows:
                query_render.render_text(desc, rows, dcontext, exp, **settings)
            else:
                exp.write('(empty)\n')
        else:
            query_render.render_csv(desc, rows, dcontext, exp, **settings)
        result_text = open(outpath).read() if to_file and os.path.exists(outpath) else None
        shown = result_text if to_file else stdout
        if to_file:
            ctx.count('obs.cli_output_redirected')
            if result_text is None:
                ctx.violation('c19.cli_output_option', f'-o {outpath}: file not written', case)
                return
            if exp.getvalue().strip() and exp.getvalue() in stdout:
                ctx.violation('c19.cli_output_option', '-o given but the result was also written to stdout', case)
                return
        if shown.replace('\r\n', '\n') != exp.getvalue().replace('\r\n', '\n'):
            mech = 'c19.cli_format_option' if fmt else 'c19.cli_output'
            ctx.violation(mech, f'main{args[:-2]}: output differs from the renderer applied to the API result\n--- cli\n{shown[:300]}\n--- expected\n{exp.getvalue()[:300]}', case)
            return
        if not good:
            has_report = 'unknown account' in stderr.lower() or 'does not balance' in stderr.lower() or 'invalid reference' in stderr.lower()
            ctx.count('obs.cli_error_ledgers')
            if quiet and has_report:
                ctx.violation('c19.cli_quiet_option_ignored', '-q given but the ledger error report is printed on stderr', case)
            elif not quiet and not has_report:
                ctx.violation('c19.cli_error_report_missing', 'ledger has errors, no -q, but no error report on stderr', case)
            elif quiet:
                ctx.count('obs.cli_quiet_respected')
    finally:
        shutil.rmtree(tmp, ignore_errors=True)


def run(ctx):
    engine.bq()
    # every combination of the rendering settings, split over the shards
    run_session(ctx, 10 ** 6 + ctx.shard, systematic=(ctx.shard, ctx.nshards))
    for n in range(ctx.pick(12, 700)):
        if ctx.out_of_time():
            break
        run_session(ctx, n)
    for n in range(ctx.pick(8, 300)):
        if ctx.out_of_time():
            break
        run_cli(ctx, n)


def replay(ctx, case):
    engine.bq()
    part, n = case['replay']
    (run_session if part == 'session' else run_cli)(ctx, n)


def finalize(merged):
    c = merged['counters']
    reasons = []
    if c.get('obs.systematic_setting_combinations', 0) < 32:
        reasons.append(f"only {c.get('obs.systematic_setting_combinations', 0)} of the 32 setting combinations executed")
    for k in ('obs.sessions', 'obs.kind.set', 'obs.kind.statement', 'obs.kind.run', 'obs.kind.unknown', 'obs.kind.set-bad-name', 'obs.cli_invocations',
              'obs.cli_output_redirected', 'obs.cli_error_ledgers', 'obs.empty_results', 'obs.run_with_default_close'):
        if c.get(k, 0) == 0:
            reasons.append(f'{k} == 0')
    return reasons

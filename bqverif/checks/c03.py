"""C03 — ORDER BY / DISTINCT / LIMIT.

Oracles: R2 model (stable lexicographic sort, NULL first / last under DESC, then
first-occurrence DISTINCT on visible rows, then LIMIT) on harness tables; on ledger
tables the two-execution relation: result == limit(distinct(project(stable_sort(
unordered result with its keys appended)))).
"""
import itertools
from decimal import InvalidOperation
import re as _re

from .. import engine, gen, ir, model, monitors, ledgers
from ..ir import T_INT, T_DEC, T_STR, T_DATE, T_BOOL
from ..values import same_rows, first_row_diff, show, show_rows

ID = 'C03'
LEVEL = 'exploration'
EXHAUSTIVE = True
RULE = ('Exhaustive part: all 30 ASC/DESC direction patterns of 1-4 ORDER BY keys, each pattern with keys given by '
        'position, name and expression (visible and hidden), on tie-heavy tables with NULLs, with a unique row id column '
        'selected so that stability is observable. Random part: random non-aggregate and aggregate queries + ORDER BY '
        '(1-4 keys, by index/name/expression, hidden, aggregate) + DISTINCT + LIMIT in {0,1,size-1,size,size+3,10^6,10^20}, '
        'duplicate output names with positional references. Ledger part: ORDER BY a non-selected column on postings and '
        'typed directive tables against the sorted un-ordered result. A case is distinct by (statement, table digest); '
        'non-trivial when the result has >=2 rows and the sorted order differs from the unordered order, or DISTINCT '
        'removed a row, or LIMIT cut the result.')
ASSUMPTIONS = ['reference model R2 written from the property statement', 'ordering of object-typed mixed values is not generated']
_LIT = ir.Style()
_LIT.param_style = 'literal'
EXCLUDED_BOTH = (InvalidOperation, OverflowError, _re.error)      # (an invalid regular expression built from data: undefined)


def classify_exc(exc, q):
    kind = monitors.classify_exception(exc)
    return f'c03.engine_raised.{kind}'


def is_equal_constant_merge(exc, q, tables):
    """Known mechanism: two column-free, aggregate-free targets / grouping keys that fold to EQUAL constants are
    reconciled with each other by the compiler, which then reports one of them as not covered by GROUP BY."""
    if 'must be covered by GROUP-BY' not in str(exc):
        return False
    env = model.Env(tables)
    consts = []
    exprs = [t.expr for t in q.targets] + [k.value for k in (q.group_by or []) if k.kind == 'expr']
    for e in exprs:
        if not e.has_agg() and not any(n.kind == 'col' for n in e.walk()):
            try:
                consts.append(model.ev(e, {}, env))
            except Exception:  # noqa: BLE001
                pass
    return any(a == b and a is not None for i, a in enumerate(consts) for b in consts[i + 1:]) or consts.count(None) >= 2


def run_case(ctx, q, tables, route, label, mon):
    mt = tables[q.table] if q.table else next(iter(tables.values()))
    conn = engine.connection(tables.values())
    try:
        stmt = ir.to_text(q) if route == 'text' else ir.to_ast(q)
    except ValueError:
        ctx.count('skipped.unprintable')
        return
    text = ir.to_text(q, _LIT)
    case = {'label': label, 'route': route, 'statement': text, 'columns': mt.columns, 'rows': show_rows(mt.rows, 60)}
    mon.reset()
    mon.enabled = True
    eng_exc = mod_exc = None
    try:
        names, dtypes, rows = engine.run(conn, stmt)
    except Exception as exc:  # noqa: BLE001
        eng_exc = exc
    finally:
        mon.enabled = False
    try:
        mnames, mtypes, mrows = model.run_query(q, tables)
        q0 = ir.Query(targets=q.targets, table=q.table, subquery=q.subquery, where=q.where, group_by=q.group_by, having=q.having)
        _, _, unordered = model.run_query(q0, tables)
    except model.ModelError:
        ctx.count('skipped.model_domain')
        return
    except EXCLUDED_BOTH as exc:
        mod_exc = exc
    if eng_exc is not None or mod_exc is not None:
        if eng_exc is not None and mod_exc is not None and type(eng_exc) is type(mod_exc):
            ctx.count('excluded.definition_raises')
            return
        if isinstance(eng_exc, EXCLUDED_BOTH) and model.domain_error_possible(q, tables, EXCLUDED_BOTH):
            # arithmetic domain error on a row / key / sub-expression the (lazier) model never evaluated (such an evaluation
            # exists): outside the property, counted
            ctx.count('excluded.engine_arithmetic_domain_error')
            return
        if eng_exc is not None and is_equal_constant_merge(eng_exc, q, tables):
            ctx.violation('%s.group_by_equal_constants_merged' % ID.lower(), f'{type(eng_exc).__name__}: {eng_exc} on {text}', case)
            return
        if eng_exc is not None:
            mech = classify_exc(eng_exc, q)
            if q.limit is not None and q.limit > 2 ** 63 - 1 and isinstance(eng_exc, ValueError):
                mech = 'c03.limit_larger_than_maxsize'
            ctx.violation(mech, f'{type(eng_exc).__name__}: {eng_exc} on {text}', case)
        else:
            ctx.count('excluded.model_raises_only')
        return
    reordered = len(mrows) >= 2 and list(unordered[:len(mrows)]) != list(mrows)
    cut = len(mrows) < len(unordered)
    ctx.case((text, gen.table_digest(mt), route), reordered or cut)
    ctx.count(f'route.{route}')
    if reordered:
        ctx.count('obs.results_reordered')
    if hash(case['statement']) % 5 == 0:
        # re-execution on the same connection gives the same rows (no state kept between executions)
        try:
            _, _, rows_again = engine.run(conn, ir.to_text(q) if route == 'text' else ir.to_ast(q))
            ctx.count('obs.reexecutions')
            if not same_rows(rows_again, rows):
                ctx.violation('c03.reexecution_differs', f'{case["statement"]}: a second execution on the same connection returns different rows', case)
        except Exception as exc:  # noqa: BLE001
            ctx.violation('c03.reexecution_differs', f'{case["statement"]}: a second execution raised {exc!r}', case)
    if q.distinct and cut:
        ctx.count('obs.distinct_or_limit_cut')
    if q.order_by:
        ctx.seen('direction_patterns', ''.join('D' if k.desc else 'A' for k in q.order_by))
        for k in q.order_by:
            ctx.count(f'obs.key_kind.{k.kind}')
    if len(ctx.samples) < 4 and reordered:
        ctx.sample({'statement': text, 'route': route, 'table_rows': show_rows(mt.rows, 5), 'result_rows': show_rows(rows, 5)})
    if mon.dtype_violations:
        ctx.violation('c03.node_dtype', f'{text}: {mon.dtype_violations[0]}', case)
    if not same_rows(rows, mrows):
        diff = first_row_diff(rows, mrows)
        ctx.violation('c03.order_mismatch',
                      f'{text}: row {diff[0]} engine={show(diff[1])} model={show(diff[2])} '
                      f'(engine {len(rows)} rows, model {len(mrows)})', case,
                      {'engine': show_rows(rows, 30), 'model': show_rows(mrows, 30)})


def tie_query(rng, nkeys, pattern, mode):
    """A query over the tie table ordered by nkeys keys with the given direction pattern."""
    pool = [('i', T_INT), ('j', T_INT), ('s', T_STR), ('b', T_BOOL), ('d', T_DEC), ('dt', T_DATE), ('t', T_STR), ('c', T_BOOL)]
    cols = rng.sample(pool, nkeys)
    targets = [ir.Target(ir.col('k', T_INT))]
    keys = []
    for (c, t), desc in zip(cols, pattern):
        e = ir.col(c, t)
        d = True if desc else rng.choice([None, False])
        if mode == 'index':
            targets.append(ir.Target(e))
            keys.append(ir.Key('index', len(targets), d))
        elif mode == 'name':
            alias = f'n_{c}'
            targets.append(ir.Target(e, alias))
            keys.append(ir.Key('name', alias, d))
        elif mode == 'hidden':
            keys.append(ir.Key('expr', e, d))
        elif mode == 'expr':
            targets.append(ir.Target(e))
            keys.append(ir.Key('expr', e, d))
        else:  # mixed
            m = rng.choice(['index', 'hidden', 'expr'])
            if m == 'hidden':
                keys.append(ir.Key('expr', e, d))
            else:
                targets.append(ir.Target(e))
                keys.append(ir.Key('index', len(targets), d) if m == 'index' else ir.Key('expr', e, d))
    return ir.Query(targets=targets, table='t', order_by=keys)


def exhaustive_cases():
    out = []
    for n in (1, 2, 3, 4):
        for pattern in itertools.product([False, True], repeat=n):
            for mode in ('index', 'name', 'hidden', 'expr', 'mixed'):
                out.append((n, pattern, mode))
    return out


def limits_for(rng, size):
    return rng.choice([None, None, 0, 1, max(size - 1, 0), size, size + 3, 10 ** 6, 10 ** 20])


def run(ctx):
    mon = monitors.install()
    cases = exhaustive_cases()
    ctx.count('exhaustive.total_cases', len(cases) if ctx.shard == 0 else 0)
    rng = ctx.rng('exh')
    reps = ctx.pick(2, 12)
    for idx, (n, pattern, mode) in enumerate(cases):
        if not ctx.mine(idx):
            continue
        for rep in range(reps):
            mt = gen.gen_table(rng, 't', max_rows=14, ties=True)
            q = tie_query(rng, n, pattern, mode)
            if rep % 2:
                q.distinct = rng.random() < 0.3
                q.limit = limits_for(rng, len(mt.rows))
                if q.limit is not None and q.limit > 2 ** 62:
                    q.limit = 10 ** 6
            run_case(ctx, q, {'t': mt}, 'text' if (idx + rep) % 6 == 0 else 'ast', f'exh/{n}/{pattern}/{mode}', mon)
        ctx.count('exhaustive.executed')
    # random part
    for n in range(ctx.pick(600, 10000)):
        if ctx.out_of_time():
            break
        random_case(ctx, n, mon)
    for i in range(ctx.pick(6, 80)):
        mixed_type_keys(ctx, ctx.rng('mixed', i))
    for i in range(ctx.pick(20, 300)):
        ordered_subquery_case(ctx, i, mon)
    for i in range(ctx.pick(30, 400)):
        look_alike_keys_case(ctx, i, mon)
    ledger_part(ctx, mon)


def ordered_subquery_case(ctx, n, mon):
    """An ordered sub-query is an ordered table: ORDER BY of the enclosing statement is a stable sort of ITS rows, so ties
    on the outer keys keep the order the sub-query produced (not the order of the table underneath)."""
    rng = ctx.rng('ordered-subquery', n)
    mt = gen.gen_table(rng, 't', max_rows=ctx.pick(14, 30), ties=True)
    pool = [('i', T_INT), ('j', T_INT), ('s', T_STR), ('b', T_BOOL), ('d', T_DEC), ('dt', T_DATE), ('t', T_STR), ('c', T_BOOL)]
    cols = rng.sample(pool, 3)
    inner_targets = [ir.Target(ir.col('k', T_INT))] + [ir.Target(ir.col(c, t), f'n_{c}') for c, t in cols]
    ikeys = []
    for c, t in rng.sample(cols, rng.choice([1, 1, 2])):
        d = rng.choice([None, False, True, True])
        ikeys.append(ir.Key('name', f'n_{c}', d) if rng.random() < 0.5 else ir.Key('expr', ir.col(c, t), d))
    if rng.random() < 0.3:
        ikeys.append(ir.Key('expr', ir.col('k', T_INT), rng.choice([None, True])))
    inner = ir.Query(targets=inner_targets, table='t', order_by=ikeys)
    if rng.random() < 0.15:
        inner.limit = rng.choice([len(mt.rows), len(mt.rows) + 5, max(len(mt.rows) - 2, 1)])
    if rng.random() < 0.15:
        inner.distinct = True
    shown = [ir.Target(ir.col('k', T_INT))] + [ir.Target(ir.col(f'n_{c}', t), None if rng.random() < 0.6 else f'o_{c}')
                                              for c, t in cols if rng.random() < 0.7]
    okeys = []
    for c, t in rng.sample(cols, rng.choice([1, 1, 2])):
        okeys.append(ir.Key('expr', ir.col(f'n_{c}', t), rng.choice([None, False, True])))
    outer = ir.Query(targets=shown, subquery=inner, order_by=okeys if rng.random() < 0.85 else None)
    if rng.random() < 0.25:
        outer.where = ir.un('isnotnull', ir.col(f'n_{cols[0][0]}', cols[0][1]), T_BOOL)
    if rng.random() < 0.2:
        outer.limit = limits_for(rng, len(mt.rows))
        if outer.limit is not None and outer.limit > 2 ** 62:
            outer.limit = 10 ** 6
    run_case(ctx, outer, {'t': mt}, 'text' if rng.random() < 0.15 else 'ast', f'ordered-subquery/{n}', mon)
    ctx.count('obs.ordered_subquery_cases')


def look_alike_keys_case(ctx, n, mon):
    """An ORDER BY key that differs from a selected expression only in a constant, in the aggregate function or in one operand is
    a key of its own: it must not be taken for the selected expression."""
    rng = ctx.rng('look-alike-keys', n)
    mt = gen.gen_table(rng, 't', max_rows=ctx.pick(14, 30), ties=True)
    i, j, s_, t_ = ir.col('i', T_INT), ir.col('j', T_INT), ir.col('s', T_STR), ir.col('t', T_STR)
    def L(v):
        return ir.lit(v, T_INT)
    scalar_pairs = [
        (ir.bin_('mod', i, L(2), T_INT), ir.bin_('mod', i, L(3), T_INT)), (ir.bin_('mod', i, L(3), T_INT), ir.bin_('mod', j, L(3), T_INT)),
        (ir.func('substr', [s_, L(0), L(1)], T_STR), ir.func('substr', [s_, L(1), L(2)], T_STR)), (ir.func('substr', [s_, L(0), L(1)], T_STR), ir.func('substr', [t_, L(0), L(1)], T_STR)),
        (ir.bin_('add', i, L(1), T_INT), ir.bin_('sub', L(1), i, T_INT)), (ir.bin_('mul', i, L(1), T_INT), ir.bin_('mul', i, L(-1), T_INT)),
        (ir.bin_('gt', i, L(0), T_BOOL), ir.bin_('gt', i, L(1), T_BOOL)), (ir.func('length', [s_], T_INT), ir.func('length', [t_], T_INT)),
    ]
    agg_pairs = [(ir.agg('min', [j], T_INT), ir.agg('max', [j], T_INT)), (ir.agg('max', [j], T_INT), ir.agg('min', [j], T_INT)),
                 (ir.agg('first', [s_], T_STR), ir.agg('last', [s_], T_STR)), (ir.agg('sum', [j], T_INT), ir.agg('count', [j], T_INT)),
                 (ir.agg('min', [j], T_INT), ir.agg('min', [ir.col('k', T_INT)], T_INT)), (ir.agg('sum', [ir.bin_('mod', j, L(2), T_INT)], T_INT), ir.agg('sum', [ir.bin_('mod', j, L(3), T_INT)], T_INT))]
    desc = rng.choice([None, False, True])
    if rng.random() < 0.5:
        shown, key = rng.choice(scalar_pairs)
        targets = [ir.Target(ir.col('k', T_INT)), ir.Target(shown, None if rng.random() < 0.6 else 'x')]
        if rng.random() < 0.3:
            targets.append(ir.Target(key, None))        # visible after the look-alike, referenced by expression
        q = ir.Query(targets=targets, table='t', order_by=[ir.Key('expr', key, desc), ir.Key('expr', ir.col('k', T_INT), None)])
    else:
        shown, key = rng.choice(agg_pairs)
        targets = [ir.Target(i, None), ir.Target(shown, None if rng.random() < 0.6 else 'x')]
        if rng.random() < 0.3:
            targets.append(ir.Target(key, None))
        q = ir.Query(targets=targets, table='t', group_by=[ir.Key('index', 1)], order_by=[ir.Key('expr', key, desc), ir.Key('index', 1, None)])
    if rng.random() < 0.2:
        q.limit = rng.choice([1, 2, 3])
    run_case(ctx, q, {'t': mt}, 'text' if rng.random() < 0.3 else 'ast', f'look-alike-keys/{n}', mon)
    ctx.count('obs.look_alike_key_cases')


def random_case(ctx, n, mon):
    rng = ctx.rng('random', n)
    ties = rng.random() < 0.6
    mt = gen.gen_table(rng, 't', max_rows=ctx.pick(12, 40), ties=ties)
    qg = gen.QueryGen(rng, max_depth=3, obj_keys=False)
    if rng.random() < 0.35:
        q = qg.aggregate()
        q.order_by = qg.order_keys(q, aggregate=True)
        ctx.count('random.aggregate')
    else:
        q = qg.simple(with_k=rng.random() < 0.7)
        if rng.random() < 0.25:
            # duplicate output names with positional references
            t0 = q.targets[rng.randrange(len(q.targets))]
            q.targets.append(ir.Target(t0.expr, t0.alias))
        q.order_by = qg.order_keys(q) if rng.random() < 0.85 else None
    if rng.random() < 0.2:
        # a sub-select in the condition (with or without a FROM clause of its own) whose output carries the name of an
        # ORDER BY key or of another output: name resolution of the enclosing statement must not be disturbed by it
        onames = [k.value for k in (q.order_by or []) if k.kind == 'name'] or [ir.target_name(t) for t in q.targets]
        m = qg.membership(name=rng.choice(onames) if rng.random() < 0.8 else None)
        q.where = m if q.where is None else (ir.and_(q.where, m) if rng.random() < 0.5 else ir.or_(m, q.where))
        ctx.count('random.subselect_in_condition')
    q.distinct = rng.random() < 0.3
    q.limit = limits_for(rng, len(mt.rows))
    if q.distinct:
        # DISTINCT needs hashable visible rows: all harness scalar types are
        pass
    route = 'text' if rng.random() < 0.12 else 'ast'
    run_case(ctx, q, {'t': mt}, route, f'random/{n}', mon)
    ctx.count('random.executed')


def ledger_part(ctx, mon):
    rng = ctx.rng('ledger')
    for i in range(ctx.pick(10, 120)):
        if ctx.out_of_time():
            break
        led = ledgers.gen_ledger(rng, ntxn=rng.randint(4, ctx.pick(12, 40)))
        conn = engine.connection(ledger=led.loaded)
        for table, cols in ledgers.GROUPABLE.items():
            cs = [c for c, t in cols]
            if len(cs) < 2:
                continue
            a, b = rng.sample(cs, 2)
            desc = rng.random() < 0.5
            ledger_case(ctx, conn, table, a, b, desc)
        for _ in range(3):
            ledger_distinct_case(ctx, conn, rng)


DISTINCT_STRUCTURED = [
    'account, sum(position) AS s FROM #postings GROUP BY account ORDER BY account',
    'flag, balance FROM #postings',
    'account, balance FROM #postings ORDER BY account DESC LIMIT 3',
    'meta FROM #postings',
    'year, month, meta, tags FROM #entries',
    'currency, units(sum(position)) AS u FROM #postings GROUP BY currency, year',
    'payee, other_accounts, position FROM #postings',
    'root(account, 1) AS r, cost(position) AS c FROM #postings ORDER BY r',
    'type, meta["note"] AS n, links FROM #entries',
]


def ledger_distinct_case(ctx, conn, rng):
    """DISTINCT over rows holding values that cannot be hashed (inventories, metadata dicts) or that mix hashable and
    unhashable rows: later duplicates go, everything else stays, in order, then LIMIT cuts."""
    tail = rng.choice(DISTINCT_STRUCTURED)
    plain, dist = f'SELECT {tail}', f'SELECT DISTINCT {tail}'
    limit = None
    if ' LIMIT ' in tail:
        limit = int(tail.rsplit(' LIMIT ', 1)[1])
        plain = f"SELECT {tail.rsplit(' LIMIT ', 1)[0]}"
    try:
        _, _, base = engine.run(conn, plain)
        _, _, rows = engine.run(conn, dist)
    except Exception as exc:  # noqa: BLE001
        ctx.violation(f'c03.engine_raised.{monitors.classify_exception(exc)}', f'{dist}: {exc!r}', {'statement': dist})
        return
    exp = []
    for r in base:
        if not any(r == e for e in exp):
            exp.append(r)
    if limit is not None:
        exp = exp[:limit]
    ctx.case(('distinct-structured', dist, tuple(map(repr, base))), len(exp) < len(base))
    ctx.count('obs.distinct_over_unhashable_rows')
    if len(exp) < len(base):
        ctx.count('obs.distinct_over_unhashable_rows_removed_duplicates')
    if [tuple(r) for r in rows] != [tuple(r) for r in exp]:
        ctx.violation('c03.distinct_structured_rows', f'{dist}: {len(rows)} rows; removing later duplicates from the {len(base)} rows of the statement without DISTINCT leaves {len(exp)}'
                      f' (first rows {show_rows(rows, 2)} vs {show_rows(exp, 2)})', {'statement': dist})


def mixed_type_keys(ctx, rng):
    """An untyped key column holding comparable values of several types (ints beside decimals, booleans beside numbers):
    they are ordered by value; equal values of different types tie and keep their order."""
    from decimal import Decimal as D_
    from ..model import ModelTable
    pool = [1, D_('2.5'), True, 10, D_('1E+1'), D_('10.0'), None, 0, -1, False, D_('-1.0'), 3, D_('0.5'), None, 2]
    rows = [(i, rng.choice(pool), rng.choice(pool), rng.choice(['a', 'b'])) for i in range(rng.randint(6, 16))]
    mt = ModelTable('m', [('k', int), ('o', object), ('p', object), ('s', str)], rows)
    conn = engine.connection()
    conn.tables['m'] = engine.harness_table(mt)
    for keys in (['o'], ['o DESC'], ['s', 'o'], ['o', 'p DESC'], ['p DESC', 'o DESC']):
        text = f'SELECT k, o, p, s FROM #m ORDER BY {", ".join(keys)}' + rng.choice(['', ' LIMIT 4'])
        try:
            _, _, got = engine.run(conn, text)
        except Exception as exc:  # noqa: BLE001
            ctx.violation(f'c03.engine_raised.{monitors.classify_exception(exc)}', f'{text}: {exc!r}', {'statement': text, 'rows': show_rows(rows, 20)})
            return
        specs = []
        for kx in keys:
            col = {'o': 1, 'p': 2, 's': 3}[kx.split()[0]]
            specs.append(((lambda c: (lambda r: r[c]))(col), kx.endswith('DESC')))
        exp = model.sort_rows(list(rows), specs)
        if ' LIMIT ' in text:
            exp = exp[:4]
        ctx.case(('mixed-type-keys', text, repr(rows)), True)
        ctx.count('obs.mixed_type_key_cases')
        if [tuple(r) for r in got] != exp:
            ctx.violation('c03.mixed_type_keys', f'{text}: engine {show_rows(got, 6)} expected {show_rows(exp, 6)}', {'statement': text, 'rows': show_rows(rows, 20)})
            return


def ledger_case(ctx, conn, table, shown, key, desc):
    """SELECT shown FROM #table ORDER BY key: equals the stable sort of (shown, key) rows by key."""
    q_unordered = f'SELECT {shown} AS a, {key} AS kk FROM #{table}'
    q_ordered = f'SELECT {shown} FROM #{table} ORDER BY {key}' + (' DESC' if desc else '')
    try:
        _, _, base = engine.run(conn, q_unordered)
        _, _, rows = engine.run(conn, q_ordered)
    except Exception as exc:  # noqa: BLE001
        ctx.violation(f'c03.engine_raised.{monitors.classify_exception(exc)}', f'{q_ordered}: {exc!r}', {'statement': q_ordered})
        return
    exp = model.sort_rows(list(base), [(lambda r: r[1], desc)])
    exp = [(r[0],) for r in exp]
    reordered = [(r[0],) for r in base] != exp
    ctx.case((q_ordered, tuple(map(repr, base))), reordered)
    ctx.count('obs.ledger_cases')
    if [tuple(r) for r in rows] != exp:
        ctx.violation('c03.ledger_order_mismatch', f'{q_ordered}: engine {show_rows(rows, 5)} expected {show_rows(exp, 5)}',
                      {'statement': q_ordered, 'unordered': show_rows(base, 40)})


def replay(ctx, case):
    mon = monitors.install()
    label = (case or {}).get('label', '')
    if label.startswith('random/'):
        random_case(ctx, int(label.split('/')[1]), mon)
    elif label.startswith('look-alike-keys/'):
        look_alike_keys_case(ctx, int(label.split('/')[1]), mon)
    elif label.startswith('ordered-subquery/'):
        ordered_subquery_case(ctx, int(label.split('/')[1]), mon)
    else:
        print('replay: exhaustive/ledger case; re-run the check with the same VERIF_SEED. case:', case)


def finalize(merged):
    reasons = []
    c = merged['counters']
    if c.get('exhaustive.executed', 0) < c.get('exhaustive.total_cases', 1):
        reasons.append('exhaustive direction-pattern part incomplete')
    pats = merged['sets'].get('direction_patterns', set())
    want = {''.join(p) for n in (1, 2, 3, 4) for p in itertools.product('AD', repeat=n)}
    if want - set(pats):
        reasons.append(f'direction patterns not covered: {sorted(want - set(pats))[:5]}')
    if c.get('obs.results_reordered', 0) == 0:
        reasons.append('no case in which sorting changed the order')
    if c.get('obs.distinct_over_unhashable_rows_removed_duplicates', 0) == 0:
        reasons.append('no DISTINCT over unhashable rows that removed a duplicate')
    if c.get('obs.ledger_cases', 0) == 0:
        reasons.append('no ledger-table case executed')
    merged['extra']['exhaustive'] = not (want - set(pats)) and c.get('exhaustive.executed', 0) >= c.get('exhaustive.total_cases', 1)
    merged['extra']['direction_patterns_covered'] = len(want & set(pats))
    return reasons

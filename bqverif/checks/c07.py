"""C07 — result shape and naming: only the selected targets, in order, named by rule.

The printer records the exact substring it wrote for every target; the monitor at
the cursor boundary compares description names with (alias | column name | that
substring), checks that hidden GROUP BY / ORDER BY / HAVING helpers never show up,
that every row has one cell per described column, that expression-text names parse
back to the target's AST, and that `*` expands to the table's default columns.
"""
import random
from decimal import InvalidOperation

from .. import engine, gen, ir, ledgers, model, monitors
from ..ir import T_INT, T_STR, T_BOOL
from .c06 import ast_same
from ..values import show, show_rows, same_rows, first_row_diff

ID = 'C07'
LEVEL = 'exploration'
RULE = ('Text route only (names need source text): random non-aggregate and aggregate statements over typed tables with any mix '
        'of aliased, bare-column (also parenthesised) and expression targets, duplicate names, 0-3 hidden GROUP BY keys, 0-3 '
        'hidden ORDER BY keys and HAVING, printed in 4 styles (minimal, redundant parentheses incl. around whole targets, mixed '
        'case, random whitespace + comments inside expressions); wildcard on harness, postings, entries, every typed directive '
        'table and sub-queries; fixed expression statements on ledger tables. A case is distinct by text; non-trivial when it has '
        '>= 1 expression-text name or >= 1 hidden target.')
ASSUMPTIONS = ['redundant parentheses around a whole target are not part of the expression: its name is the text inside them',
               'inner comments/whitespace are part of an expression-text name']
EXC_BOTH = (InvalidOperation, OverflowError)


def expected_names(q, target_texts):
    out = []
    for t, s in zip(q.targets, target_texts):
        if t.alias is not None:
            out.append(t.alias)
        elif t.expr.kind == 'col':
            out.append(t.expr.name)
        else:
            out.append(s.strip())
    return out


def check_statement(ctx, conn, q, style_name, style, label, hidden, mt=None):
    from beanquery import parser
    texts = []
    try:
        text = ir.to_text(q, style, target_texts=texts)
    except ValueError:
        ctx.count('skipped.unprintable')
        return
    case = {'label': label, 'style': style_name, 'text': text}
    try:
        stmt = parser.parse(text)
        cur = conn.execute(stmt)
        desc, rows = cur.description, cur.fetchall()
    except EXC_BOTH:
        ctx.count('excluded.definition_raises')
        return
    except Exception as exc:  # noqa: BLE001
        ctx.count(f'outcome.{monitors.classify_exception(exc)}')
        if style_name != 'minimal':
            # the minimal rendering of the same statement decides whether it is a valid statement at all
            return
        ctx.count('skipped.statement_rejected')
        return
    exp = expected_names(q, texts)
    if desc is None:
        ctx.violation('c07.description_missing', f'{label}/{style_name}: {text!r}: the statement was executed ({len(rows)} rows) and the cursor has no description (expected {exp})', case)
        return
    names = [d.name for d in desc]
    nexpr = sum(1 for t in q.targets if t.alias is None and t.expr.kind != 'col')
    ctx.case(text, nexpr >= 1 or hidden >= 1)
    ctx.count(f'obs.statements.{style_name}')
    ctx.count('obs.names_by_rule.alias', sum(1 for t in q.targets if t.alias is not None))
    ctx.count('obs.names_by_rule.column', sum(1 for t in q.targets if t.alias is None and t.expr.kind == 'col'))
    ctx.count('obs.names_by_rule.text', nexpr)
    ctx.count('obs.hidden_targets', hidden)
    if len(ctx.samples) < 4 and nexpr and hidden:
        ctx.sample({'text': text, 'names': names, 'rows': show_rows(rows, 2)})
    if names != exp:
        ctx.violation('c07.names', f'{label}/{style_name}: {text!r}: description names {names} expected {exp}', case)
        return
    for r in rows:
        if len(r) != len(desc) or not isinstance(r, tuple):
            ctx.violation('c07.row_shape', f'{label}: {text!r}: row {r!r} for {len(desc)} described columns', case)
            break
    # every cell is the value of the target its column is named after (reference model; the minimal rendering only)
    if mt is not None and style_name == 'minimal':
        try:
            _, _, mrows = model.run_query(q, {'t': mt})
        except Exception:  # noqa: BLE001
            ctx.count('excluded.model_raises')
            mrows = None
        if mrows is not None:
            ctx.count('obs.rows_compared_with_model', len(mrows))
            if not same_rows(rows, mrows):
                d = first_row_diff(rows, mrows)
                ctx.violation('c07.cell_not_value_of_its_target', f'{label}: {text!r}: row {d[0]} is {show(d[1])}, the values of the targets {names} are {show(d[2])}', case)
                return
    # parse back of expression-text names
    for t, name, parsed_t in zip(q.targets, names, stmt.targets):
        if t.alias is None and t.expr.kind != 'col':
            try:
                back = parser.parse('SELECT ' + name).targets[0].expression
            except Exception as exc:  # noqa: BLE001
                ctx.violation('c07.name_does_not_parse_back', f'{label}: name {name!r} does not parse: {exc!r}', case)
                continue
            ctx.count('obs.parse_back')
            if not ast_same(back, parsed_t.expression):
                ctx.violation('c07.name_parses_to_other_expression', f'{label}: name {name!r} parses to {back} instead of {parsed_t.expression}', case)


def styles(rng):
    return [('minimal', ir.Style()),
            ('redundant', ir.Style(rng=random.Random(rng.random()), parens='random')),
            ('mixedcase', ir.Style(rng=random.Random(rng.random()), case='mixed')),
            ('whitespace+comments', ir.Style(rng=random.Random(rng.random()), space='random', comments=True))]


def random_case(ctx, n):
    rng = ctx.rng('random', n)
    mt = gen.gen_table(rng, 't', max_rows=8)
    conn = engine.connection([mt])
    qg = gen.QueryGen(rng, max_depth=3, obj_keys=False, subselects=0.08)
    hidden = 0
    if rng.random() < 0.4:
        q = qg.aggregate()
        names = [ir.target_name(t) for t in q.targets]
        if q.group_by:
            hidden += sum(1 for k in q.group_by if k.kind == 'expr' and all(k.value is not t.expr for t in q.targets))
        if q.having is not None:
            hidden += 1
        if rng.random() < 0.5:
            q.order_by = qg.order_keys(q, aggregate=True)
            hidden += sum(1 for k in (q.order_by or []) if k.kind == 'expr' and k.value.has_agg())
    else:
        q = qg.simple(with_k=rng.random() < 0.5)
        if rng.random() < 0.3:
            t0 = rng.choice(q.targets)
            q.targets.append(ir.Target(t0.expr, t0.alias))      # duplicate name
        if rng.random() < 0.3:
            q.targets.append(ir.Target(ir.col('s', T_STR), 'x'))
            q.targets.append(ir.Target(ir.col('i', T_INT), 'x'))    # same alias twice
        if rng.random() < 0.7:
            q.order_by = qg.order_keys(q)
            hidden += sum(1 for k in (q.order_by or []) if k.kind == 'expr' and all(k.value.key() != t.expr.key() for t in q.targets))
    # LIMIT (smaller than, equal to and larger than the result) and DISTINCT: the shape of the rows must not depend on them
    r = rng.random()
    if r < 0.35:
        q.limit = rng.choice([0, 1, 2, 3, 5, 100])
        ctx.count('obs.statements_with_limit')
    if rng.random() < 0.15:
        q.distinct = True
    for sname, style in styles(rng):
        check_statement(ctx, conn, q, sname, style, f'random/{n}', hidden, mt)
    ctx.count('random.executed')


LEDGER_STATEMENTS = [
    ('SELECT account, sum(position), count(*) GROUP BY account ORDER BY account', ['account', 'sum(position)', 'count(*)']),
    ('SELECT date, units(position) AS u, cost(position), number * 2 WHERE number > 0 ORDER BY date, lineno', ['date', 'u', 'cost(position)', 'number * 2']),
    ('SELECT year(date), month, sum(number) GROUP BY year(date), month, currency HAVING count(*) > 0 ORDER BY sum(number) DESC, currency',
     ['year(date)', 'month', 'sum(number)']),
    ('SELECT account FROM #accounts ORDER BY open.date', ['account']),
    ('SELECT narration, payee FROM #transactions ORDER BY date DESC, flag', ['narration', 'payee']),
    ('SELECT max(date) FROM #prices GROUP BY currency', ['max(date)']),
    ('SELECT DISTINCT root(account, 1) ORDER BY account_sortkey(root(account, 1))', ['root(account, 1)']),
    ('SELECT meta["note"], entry.meta["ref"], position.units.number FROM #postings', ['meta["note"]', 'entry.meta["ref"]', 'position.units.number']),
    ('SELECT a, b + 1 FROM (SELECT number AS a, year AS b, account FROM #postings ORDER BY lineno) ORDER BY account', ['a', 'b + 1']),
    ('SELECT DISTINCT account, balance ORDER BY lineno DESC', ['account', 'balance']),
    ('SELECT DISTINCT account, sum(position) AS s GROUP BY account, year ORDER BY year DESC, count(*)', ['account', 's']),
    ('SELECT DISTINCT payee, meta, entry_meta("note") FROM #postings ORDER BY date DESC LIMIT 7', ['payee', 'meta', 'entry_meta("note")']),
    ('SELECT DISTINCT meta["note"] AS n, tags FROM #transactions ORDER BY narration', ['n', 'tags']),
    # the name of an unaliased target is its text as written: capitals in function names, keywords and string literals included
    ('SELECT LENGTH(account), Upper(account), account FROM #postings', ['LENGTH(account)', 'Upper(account)', 'account']),
    ('SELECT SUBST(account, "Cash", "CASH"), \'usd\', \'USD\', number FROM #postings', ['SUBST(account, "Cash", "CASH")', "'usd'", "'USD'", 'number']),
    ('SELECT account, SUM(position), Count(*), number IS NOT NULL GROUP BY account, 4', ['account', 'SUM(position)', 'Count(*)', 'number IS NOT NULL']),
    # aliases are kept as written (lower-cased): trailing and leading underscores, digits
    ('SELECT account AS acct_, sum(number) AS total_, count(*) AS _n, max(date) AS d__2 GROUP BY acct_ ORDER BY total_', ['acct_', 'total_', '_n', 'd__2']),
    ('SELECT number AS x, number + 1 AS x_, number + 2 AS x__ FROM #postings', ['x', 'x_', 'x__']),
    ("SELECT '', account, \"\", ' ' FROM #postings", ["''", 'account', '""', "' '"]),
    ('SELECT payee ~ "ACME", payee ~ "acme", "Trip" IN tags FROM #transactions', ['payee ~ "ACME"', 'payee ~ "acme"', '"Trip" IN tags']),
]


def wildcard_expectations():
    """Expected `*` expansion per table, derived independently of beanquery where possible."""
    from beancount.core import data
    renames = {'balances': {'diff_amount': 'discrepancy'}, 'commodities': {'currency': 'name'}}
    typed = {'transactions': data.Transaction, 'prices': data.Price, 'balances': data.Balance, 'notes': data.Note,
             'events': data.Event, 'documents': data.Document, 'commodities': data.Commodity}
    exp = {'postings': ['date', 'flag', 'payee', 'narration', 'position'], 'accounts': ['account', 'open', 'close']}
    for name, cls in typed.items():
        fields = [f for f in cls._fields if f not in ('meta', 'postings')]
        if name == 'commodities':
            fields = [f for f in cls._fields if f != 'postings']      # a plain table: every column, meta included
        exp[name] = [renames.get(name, {}).get(f, f) for f in fields]
    return exp


def ledger_part(ctx):
    rng = ctx.rng('ledger')
    exp = wildcard_expectations()
    for i in range(ctx.pick(2, 20)):
        led = ledgers.gen_ledger(rng, ntxn=rng.randint(4, 12))
        conn = engine.connection(ledger=led.loaded)
        for text, names in LEDGER_STATEMENTS:
            try:
                cur = conn.execute(text)
            except Exception as exc:  # noqa: BLE001
                ctx.violation(f'c07.ledger_statement_failed', f'{text}: {exc!r}', {'text': text})
                continue
            got = [d.name for d in cur.description]
            rows = cur.fetchall()
            ctx.case(('ledger', text, i), True)
            ctx.count('obs.ledger_statements')
            if got != names:
                ctx.violation('c07.names', f'{text}: names {got} expected {names}', {'text': text})
            if any(len(r) != len(names) or not isinstance(r, tuple) for r in rows):
                ctx.violation('c07.row_shape', f'{text}: a row is not a tuple of one value per described column', {'text': text})
            if len(set(names)) == len(names):
                # the statement as a table: SELECT * FROM (statement) lists the same columns under the same names, row for row
                try:
                    cur3 = conn.execute(f'SELECT * FROM ({text})')
                    got3, rows3 = [d.name for d in cur3.description], cur3.fetchall()
                except Exception as exc:  # noqa: BLE001
                    ctx.violation('c07.wildcard_failed', f'SELECT * FROM ({text}): {exc!r}', {'text': text})
                    continue
                ctx.count('obs.wildcard_over_statements')
                if got3 != names:
                    ctx.violation('c07.wildcard_over_statement_names', f'SELECT * FROM ({text}): names {got3} expected {names}', {'text': text})
                elif len(rows3) != len(rows) or any(len(r) != len(names) for r in rows3):
                    ctx.violation('c07.row_shape', f'SELECT * FROM ({text}): {len(rows3)} rows of {len(rows3[0]) if rows3 else 0} values, the statement itself gives '
                                  f'{len(rows)} rows of {len(names)}', {'text': text})
        for tname, table in conn.tables.items():
            if not tname:
                continue
            text = f'SELECT * FROM #{tname}'
            try:
                cur = conn.execute(text)
            except Exception as exc:  # noqa: BLE001
                ctx.violation('c07.wildcard_failed', f'{text}: {exc!r}', {'text': text})
                continue
            got = [d.name for d in cur.description]
            rows = cur.fetchall()
            ctx.case(('star', tname, i), False)
            ctx.count('obs.wildcard_statements')
            ctx.seen('wildcard_tables', tname)
            if tname in exp:
                if got != exp[tname]:
                    ctx.violation('c07.wildcard_columns', f'{text}: columns {got} expected {exp[tname]}', {'text': text})
            else:
                decl = list(table.columns)
                if [g for g in got if g not in decl] or len(set(got)) != len(got) or got != [c for c in decl if c in got]:
                    ctx.violation('c07.wildcard_columns', f'{text}: columns {got} are not declared columns in declaration order', {'text': text})
            if any(len(r) != len(got) for r in rows):
                ctx.violation('c07.row_shape', f'{text}: row length differs from description', {'text': text})
            # SELECT * FROM (SELECT * FROM #t)
            try:
                cur2 = conn.execute(f'SELECT * FROM (SELECT * FROM #{tname})')
                if [d.name for d in cur2.description] != got:
                    ctx.violation('c07.wildcard_columns', f'nested wildcard on #{tname} changes the columns', {'text': text})
            except Exception as exc:  # noqa: BLE001
                ctx.violation('c07.wildcard_failed', f'nested wildcard on #{tname}: {exc!r}', {'text': text})


def failed_execution_part(ctx):
    """A cursor re-used after a refused or failed execution: whatever rows it still delivers have one value per described
    column and go under the names of the statement that produced them."""
    from .. import failpaths
    rng = ctx.rng('failpaths')
    for label, first, names, fetched, text, kind, desc, cur, raised, nrows in failpaths.scenarios(rng, ctx.pick(20, 200)):
        case = {'statement_sequence': label}
        ctx.count(f'obs.failed_executions.{kind}')
        ctx.case(('failpath', label), True)
        if raised is None:
            ctx.violation('c07.failing_statement_did_not_fail', f'{text}: expected to be refused or to fail (harness expectation)', case)
            continue
        rest = cur.fetchall()
        dnames = [d.name for d in desc] if desc is not None else None
        if rest and dnames != names:
            ctx.violation('c07.description_after_failed_execution', f'after {text!r} failed, the cursor still delivers rows of {first!r} but describes them as {dnames} (expected {names})', case)
            return
        if any(len(r) != len(desc or ()) for r in rest):
            ctx.violation('c07.row_shape', f'after {text!r} failed, the cursor delivers rows of {len(rest[0])} values for {len(desc or ())} described columns', case)
            return
        if not rest and desc is not None and dnames != names:
            ctx.violation('c07.description_after_failed_execution', f'after {text!r} failed, the description is {dnames}: neither that of the last successful statement nor empty', case)
            return


def run(ctx):
    engine.bq()
    if ctx.shard % 2 == 0 or not ctx.quick:
        failed_execution_part(ctx)
    for n in range(ctx.pick(70, 2500)):
        if ctx.out_of_time():
            break
        random_case(ctx, n)
    if ctx.shard % 4 == 0 or not ctx.quick:
        ledger_part(ctx)


def replay(ctx, case):
    engine.bq()
    label = (case or {}).get('label', '')
    if label.startswith('random/'):
        random_case(ctx, int(label.split('/')[1]))
    else:
        print('ledger case: re-run the check; case:', case)


def finalize(merged):
    c = merged['counters']
    reasons = []
    for k in ('obs.statements_with_limit', 'obs.names_by_rule.alias', 'obs.names_by_rule.column', 'obs.names_by_rule.text', 'obs.hidden_targets',
              'obs.parse_back', 'obs.wildcard_statements', 'obs.ledger_statements', 'obs.failed_executions.failing', 'obs.failed_executions.rejected'):
        if c.get(k, 0) == 0:
            reasons.append(f'{k} == 0')
    return reasons

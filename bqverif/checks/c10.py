"""C10 — cursor fetch protocol and description conform to the DB-API.

History oracle: every observation of a recorded history of cursor calls is compared
with the sequential cursor model R4 (list + position); the model's fetch results are
cross-checked against sqlite3 on the same history; icontract post-conditions on
Cursor.fetchone/fetchmany/fetchall (rownumber advances by the rows returned).
"""
import itertools
import sqlite3

from .. import engine, ir, model
from ..ir import T_INT, T_STR
from ..values import show

ID = 'C10'
LEVEL = 'exploration'
EXHAUSTIVE = True
RULE = ('Exhaustive part: all histories of length <= 4 over {fetchone, fetchmany(1), fetchmany(3), fetchall, re-execute} on '
        'result sizes {0,1,3} (2340 histories), every observation (returned rows, rownumber, rowcount, description) compared '
        'with the sequential model after each call. Random part: histories of 1-25 calls over {execute (sizes 0-12), fetchone, '
        'fetchmany(n) n in 0..5, fetchmany() with arraysize in {1,2,5}, fetchall, full and partial iteration, attribute reads, '
        'description indexing/slicing/iteration/equality}, on cursors created with Connection.cursor() and returned by Connection.execute() before/after other cursors of one connection (all cursors are re-observed after every Connection.execute()). '
        'A history is distinct by its call sequence and result sizes; non-trivial when it delivers rows through >= 2 different calls.')
ASSUMPTIONS = [
    'iteration may be consuming (DB-API/sqlite) or non-consuming (yields the not-yet-fetched rows, leaves the cursor untouched); '
    'the behaviour is fixed per cursor at its first observation and everything else is refuted',
    'sqlite3 is used as a sanity reference for the delivered rows of the model only',
]


class PostBroken(Exception):
    pass


_contract_evals = [0]


def install_contracts():
    """icontract post-conditions on the real Cursor methods."""
    from ..core import ensure_deps
    ensure_deps()
    import icontract
    from beanquery import cursor as cursor_mod
    C = cursor_mod.Cursor
    if getattr(C, '_bqv_contracts', False):
        return

    def pos_before(self):
        return self.rownumber

    def advanced_by_one_or_none(self, result, OLD):
        _contract_evals[0] += 1
        return self.rownumber == OLD.pos + (0 if result is None else 1)

    def advanced_by_len(self, result, OLD):
        _contract_evals[0] += 1
        return self.rownumber == OLD.pos + len(result)

    C.fetchone = icontract.snapshot(pos_before, name='pos')(icontract.ensure(advanced_by_one_or_none, error=PostBroken)(C.fetchone))
    C.fetchmany = icontract.snapshot(pos_before, name='pos')(icontract.ensure(advanced_by_len, error=PostBroken)(C.fetchmany))
    C.fetchall = icontract.snapshot(pos_before, name='pos')(icontract.ensure(advanced_by_len, error=PostBroken)(C.fetchall))
    C._bqv_contracts = True


class ModelCursor:
    def __init__(self):
        self.rows = None
        self.pos = 0
        self.arraysize = 1
        self.iter_mode = None
        self.names = None
        self.types = None

    def execute(self, rows, names, types):
        self.rows = list(rows)
        self.pos = 0
        self.names = names
        self.types = types

    def remaining(self):
        return [] if self.rows is None else self.rows[self.pos:]


def make_conn(nmax=12):
    rows = [(i, f's{i % 3}') for i in range(nmax)]
    mt = model.ModelTable('t', [('k', T_INT), ('s', T_STR)], rows)
    conn = engine.connection([mt])
    return conn, rows


_AST = {}
_FAIL_AST = {}
BIG = 300      # rows of the table used by the occasional large histories


def stmt_for(size):
    """A parsed statement returning `size` rows (parsed once per size)."""
    if size not in _AST:
        from beanquery import parser
        _AST[size] = parser.parse(f'SELECT k, s FROM #t WHERE k < {size}')
    return _AST[size]


def check_description(ctx, desc, mc, where):
    from beanquery import Column
    if mc.rows is None:
        if desc is not None:
            return f'{where}: description is {desc!r} before any execute'
        return None
    if desc is None:
        return f'{where}: description is None after execute'
    try:
        if len(desc) != len(mc.names):
            return f'{where}: description has {len(desc)} items for {len(mc.names)} columns'
        for item, name, dtype in zip(desc, mc.names, mc.types):
            ctx.count('obs.description_items_checked')
            if len(item) != 7:
                return f'{where}: description item has len {len(item)}'
            if item[0] != name:
                return f'{where}: description item[0] = {item[0]!r}, expected {name!r}'
            if item[1] is None:
                return f'{where}: type code is None'
            for i in range(2, 7):
                if item[i] is not None:
                    return f'{where}: description item[{i}] = {item[i]!r}, expected None'
            if item[-7] != name or item[-1] is not None or item[-6] != item[1]:
                return f'{where}: negative indexing inconsistent'
            if tuple(item[0:2]) != (name, item[1]):
                return f'{where}: slice [0:2] = {item[0:2]!r}'
            if tuple(item[2:]) != (None,) * 5:
                return f'{where}: slice [2:] = {item[2:]!r}'
            if tuple(item[:]) != tuple(item[i] for i in range(7)):
                return f'{where}: full slice differs from indexing'
            if tuple(item[::2]) != tuple(item[i] for i in range(0, 7, 2)):
                return f'{where}: extended slice differs from indexing'
            if list(iter(item)) != [item[i] for i in range(7)]:
                return f'{where}: iteration differs from indexing'
            if not (item == Column(name, dtype)):
                return f'{where}: not equal to an equal Column'
            if not (item == (name, dtype)):
                return f'{where}: not equal to (name, datatype)'
            if item == Column(name + 'x', dtype):
                return f'{where}: equal to a Column of another name'
            try:
                item[7]
                return f'{where}: item[7] did not raise IndexError'
            except IndexError:
                pass
    except Exception as exc:  # noqa: BLE001
        return f'{where}: description access raised {type(exc).__name__}: {exc}'
    return None


def classify(msg):
    if 'rowcount' in msg:
        return 'c10.rowcount'
    if 'slice' in msg or 'description access raised TypeError' in msg:
        return 'c10.description_slice'
    if 'description' in msg:
        return 'c10.description'
    if 'rownumber' in msg:
        return 'c10.rownumber'
    if 'contract' in msg:
        return 'c10.contract'
    return 'c10.fetch'


def run_history(ctx, history, label, lite=None, nmax=12):
    """history: list of ops: ('new',cid) ('exec',cid,size) ('one',cid) ('many',cid,n|None) ('all',cid)
    ('iter',cid,k|None) ('arraysize',cid,n) ('desc',cid). Returns list of problems."""
    conn, table_rows = make_conn(nmax)
    cursors = {}
    models = {}
    problems = []
    delivered_calls = set()
    sq = {}
    if lite is not None:
        pass

    def observe(cid, where):
        cur, mc = cursors[cid], models[cid]
        if cur.rownumber != mc.pos:
            problems.append(f'{where}: rownumber = {cur.rownumber}, model {mc.pos}')
        exp_rc = -1 if mc.rows is None else len(mc.rows)
        if cur.rowcount != exp_rc:
            problems.append(f'{where}: rowcount = {cur.rowcount}, expected {exp_rc}')
        p = check_description(ctx, cur.description, mc, where)
        if p:
            problems.append(p)

    for step, op in enumerate(history):
        kind, cid = op[0], op[1]
        where = f'step {step} {op}'
        try:
            if kind == 'new':
                cursors[cid] = conn.cursor()
                models[cid] = ModelCursor()
                sq[cid] = None
                observe(cid, where)
                continue
            if kind == 'cexec':
                # Connection.execute(): a NEW cursor on which the statement has been executed; earlier cursors are unaffected
                size = op[2]
                cursors[cid] = conn.execute(stmt_for(size))
                models[cid] = ModelCursor()
                models[cid].execute(table_rows[:size], ['k', 's'], [int, str])
                sq[cid] = None
                for other in cursors:
                    observe(other, where + f' (cursor {other})')
                continue
            cur, mc = cursors[cid], models[cid]
            if kind == 'exec':
                size = op[2]
                cur.execute(stmt_for(size))
                mc.execute(table_rows[:size], ['k', 's'], [int, str])
                if lite is not None:
                    c = lite.cursor()
                    c.execute('SELECT k, s FROM t WHERE k < ? ORDER BY k', (size,))
                    c.arraysize = mc.arraysize
                    sq[cid] = c
            elif kind in ('execfail', 'execreject'):
                # an execute that is refused at compile time, or that raises part-way through the evaluation of its rows:
                # the cursor keeps the state of its last successful execute (rows not yet fetched, rownumber, rowcount, description)
                text = {'execreject': ['SELECT nosuch FROM #t', 'SELECT k FROM #nosuch', 'SELECT k, FROM #t', 'SELECT sum(k), s FROM #t GROUP BY 3'],
                        'execfail': ['SELECT k, date_add(2020-01-01, 10000000 * k) AS d FROM #t', 'SELECT k FROM #t WHERE str(k) ~ "("',
                                     'SELECT s, splitcomp(s, "s", k) AS x FROM #t']}[kind][op[2]]
                stmt = _FAIL_AST.get(text)
                if stmt is None:
                    from beanquery import parser as _parser
                    try:
                        stmt = _parser.parse(text)      # parsed once: parsing costs as much as a whole history
                    except Exception:  # noqa: BLE001
                        stmt = text
                    _FAIL_AST[text] = stmt
                try:
                    cur.execute(stmt)
                    problems.append(f'{where}: {text!r} was expected to fail and did not (harness)')
                except Exception:  # noqa: BLE001
                    pass
            elif kind == 'execmany':
                # executemany(statement, parameter sets): a new execution for every set; the cursor ends up holding the last one
                sizes = list(op[2])
                psets = [(z,) for z in sizes]
                cur.executemany('SELECT k, s FROM #t WHERE k < %s', [psets, iter(psets), (x for x in psets)][sum(sizes) % 3])
                if sizes:
                    mc.execute(table_rows[:sizes[-1]], ['k', 's'], [int, str])
                    sq[cid] = None
            elif kind == 'arraysize':
                cur.arraysize = op[2]
                mc.arraysize = op[2]
                if sq.get(cid) is not None:
                    sq[cid].arraysize = op[2]
            elif kind == 'one':
                got = cur.fetchone()
                rem = mc.remaining()
                exp = rem[0] if rem else None
                if exp is not None:
                    mc.pos += 1
                    delivered_calls.add('one')
                if (got is None) != (exp is None) or (got is not None and tuple(got) != exp):
                    problems.append(f'{where}: fetchone -> {show(got)}, expected {show(exp)}')
                if sq.get(cid) is not None:
                    s = sq[cid].fetchone()
                    if (s is None) != (exp is None) or (s is not None and tuple(s) != exp):
                        problems.append(f'MODEL-vs-sqlite {where}: sqlite {s} model {exp}')
            elif kind == 'many':
                n = op[2]
                got = cur.fetchmany(n) if n is not None else cur.fetchmany()
                size = n if n is not None else mc.arraysize
                exp = mc.remaining()[:size]
                mc.pos += len(exp)
                if exp:
                    delivered_calls.add('many')
                if [tuple(r) for r in got] != exp or not isinstance(got, list):
                    problems.append(f'{where}: fetchmany -> {show(got)}, expected {show(exp)}')
                if sq.get(cid) is not None and n != 0:   # sqlite3 reads fetchmany(0) as "no limit"
                    s = sq[cid].fetchmany(n) if n is not None else sq[cid].fetchmany()
                    if [tuple(r) for r in s] != exp:
                        problems.append(f'MODEL-vs-sqlite {where}: sqlite {s} model {exp}')
            elif kind == 'all':
                got = cur.fetchall()
                exp = mc.remaining()
                mc.pos += len(exp)
                if exp:
                    delivered_calls.add('all')
                if [tuple(r) for r in got] != exp or not isinstance(got, list):
                    problems.append(f'{where}: fetchall -> {show(got)}, expected {show(exp)}')
                if sq.get(cid) is not None:
                    s = sq[cid].fetchall()
                    if [tuple(r) for r in s] != exp:
                        problems.append(f'MODEL-vs-sqlite {where}: sqlite {s} model {exp}')
            elif kind == 'iter':
                k = op[2]
                it = iter(cur)
                got = list(itertools.islice(it, k)) if k is not None else list(it)
                exp = mc.remaining() if k is None else mc.remaining()[:k]
                if [tuple(r) for r in got] != exp:
                    problems.append(f'{where}: iteration -> {show(got)}, expected {show(exp)}')
                if exp:
                    delivered_calls.add('iter')
                    if mc.iter_mode is None:
                        if cur.rownumber == mc.pos:
                            mc.iter_mode = 'non-consuming'
                        elif cur.rownumber == mc.pos + len(exp):
                            mc.iter_mode = 'consuming'
                        else:
                            problems.append(f'{where}: after iterating {len(exp)} rows rownumber went {mc.pos} -> {cur.rownumber}')
                        ctx.seen('iteration_mode', mc.iter_mode or 'inconsistent')
                    if mc.iter_mode == 'consuming':
                        mc.pos += len(exp)
                        if sq.get(cid) is not None:
                            sq[cid].fetchmany(len(exp))
            elif kind == 'desc':
                pass
            observe(cid, where)
        except PostBroken as exc:
            problems.append(f'{where}: contract violated: {exc}')
            break
        except Exception as exc:  # noqa: BLE001
            problems.append(f'{where}: raised {type(exc).__name__}: {exc}')
            break
        if problems:
            break
    ctx.count('obs.calls', len(history))
    return problems, len(delivered_calls)


KIND_STATEMENTS = [
    'SELECT account, year, sum(position) AS s, count(*) AS n GROUP BY 1, 2 PIVOT BY 1, 2',
    'SELECT year, account, sum(number) AS s GROUP BY 1, 2 PIVOT BY year, account',
    'SELECT DISTINCT account, currency ORDER BY 1, 2', 'SELECT account, sum(position) AS s GROUP BY account', 'BALANCES AT cost', 'JOURNAL "Assets"',
    'SELECT * FROM (SELECT account AS a, number AS n)', 'SELECT * FROM #prices', 'SELECT date, account WHERE account ~ "Nope"', 'SELECT account, balance LIMIT 0',
    'SELECT type, count(*) AS n FROM #entries GROUP BY type PIVOT BY type, n' if False else 'SELECT flag, year, count(*) AS n GROUP BY 1, 2 PIVOT BY 2, 1',
]


def description_protocol_part(ctx):
    """cursor.description of every kind of statement (PIVOT BY, aggregates, DISTINCT, BALANCES, JOURNAL, sub-queries, wildcard,
    empty results) is a sequence of 7-item sequences: len, indexing, slicing, repeated iteration, equality between cursors."""
    from .. import ledgers
    rng = ctx.rng('description')
    led = ledgers.gen_ledger(rng, ntxn=8)
    conn = engine.connection(ledger=led.loaded)
    collected = []
    for text in KIND_STATEMENTS:
        try:
            c1, c2 = conn.execute(text), conn.cursor().execute(text)
            d1, d2 = c1.description, c2.description
            rows = c1.fetchall()
        except Exception as exc:  # noqa: BLE001
            ctx.violation('c10.description', f'{text}: {type(exc).__name__}: {exc}', {'statement': text})
            continue
        ctx.count('obs.description_protocol_statements')
        ctx.case(('description', text), True)
        problem = None
        try:
            n = len(d1)
            first = [tuple(x) for x in d1]
            second = [tuple(x) for x in d1]
            if first != second or len(first) != n:
                problem = f'iterating the description twice gives {len(first)} and then {len(second)} items (len {n})'
            elif [tuple(d1[i]) for i in range(n)] != first or [tuple(x) for x in d1[:]] != first or (n and tuple(d1[-1]) != first[-1]):
                problem = 'indexing / slicing the description differs from iterating it'
            elif any(len(x) != 7 or x[2:] != (None,) * 5 for x in first):
                problem = f'description items are not 7-item sequences (name, type, None x 5): {first[:2]}'
            elif not (d1 == d2) or [tuple(x) for x in d2] != first:
                problem = 'the descriptions of the same statement on two cursors differ'
            elif any(len(r) != n for r in rows):
                problem = f'rows of {len(rows[0])} values for {n} described columns'
        except Exception as exc:  # noqa: BLE001
            problem = f'using the description as a sequence raised {type(exc).__name__}: {exc}'
        if problem:
            ctx.violation('c10.description', f'{text}: {problem}', {'statement': text})
        else:
            collected.extend(d1)
    # equality of description items is equality of their seven fields -- also for columns of the same name whose datatypes are
    # different classes of the same (or case-folded same) class name
    from .. import model
    import datetime as _dt
    from decimal import Decimal as _Dec
    look_alikes = [int, type('Int', (int,), {}), type('int', (), {}), str, type('Str', (str,), {}), _dt.date, type('Date', (_dt.date,), {}), _Dec, type('decimal', (), {}),
                   type('Amount', (tuple,), {})]
    try:
        from beancount.core.amount import Amount as _Amount
        look_alikes.append(_Amount)
    except ImportError:
        pass
    for i, dtype in enumerate(look_alikes):
        conn.tables[f'alike{i}'] = engine.harness_table(model.ModelTable(f'alike{i}', [('v', dtype), ('k', int)], []))
        try:
            collected.extend(conn.execute(f'SELECT v, k FROM #alike{i}').description)
            ctx.count('obs.description_look_alike_datatypes')
        except Exception as exc:  # noqa: BLE001
            ctx.count('skipped.look_alike_datatype_rejected')
    for a in collected:
        for b in collected:
            ctx.count('obs.description_item_comparisons')
            if (a == b) != (tuple(a) == tuple(b)) or (a != b) != (tuple(a) != tuple(b)):
                ctx.violation('c10.description_item_equality', f'description items {tuple(a)[:2]} and {tuple(b)[:2]}: == gives {a == b}, != gives {a != b}, while their seven '
                              f'fields are {"equal" if tuple(a) == tuple(b) else "different"}', {'items': [repr(tuple(a)), repr(tuple(b))]})
                return


def run(ctx):
    engine.bq()
    install_contracts()
    if ctx.shard % 4 == 0:
        description_protocol_part(ctx)
    lite = sqlite3.connect(':memory:')
    lite.execute('CREATE TABLE t (k INTEGER, s TEXT)')
    lite.executemany('INSERT INTO t VALUES (?, ?)', [(i, f's{i % 3}') for i in range(BIG)])
    # exhaustive part
    ops = [('one',), ('many', 1), ('many', 3), ('all',), ('exec',)]
    idx = 0
    total = 0
    for size in (0, 1, 3):
        for n in (1, 2, 3, 4):
            for seq in itertools.product(ops, repeat=n):
                total += 1
                idx += 1
                if not ctx.mine(idx):
                    continue
                hist = [('new', 0), ('exec', 0, size)]
                for o in seq:
                    if o[0] == 'exec':
                        hist.append(('exec', 0, size))
                    elif o[0] == 'many':
                        hist.append(('many', 0, o[1]))
                    else:
                        hist.append((o[0], 0))
                problems, ndeliv = run_history(ctx, hist, 'exhaustive', lite)
                ctx.case(('exh', size, seq), ndeliv >= 2)
                ctx.count('exhaustive.executed')
                report(ctx, problems, hist)
    if ctx.shard == 0:
        ctx.count('exhaustive.total', total)
    # random part
    rng = ctx.rng('random')
    for n in range(ctx.pick(4000, 60000)):
        if ctx.out_of_time():
            break
        hist = [('new', 0)]
        ncur = 1
        big = rng.random() < 0.025
        sizes = [0, 1, 2, 3, 5, 8, 12] if not big else [0, 1, 63, 64, 100, 257, 512, BIG]
        many = [None, None, 0, 1, 2, 3, 5] if not big else [None, 1, 7, 64, 100, 256, 1000]
        asizes = [1, 2, 5] if not big else [1, 10, 100, 1000]
        if big:
            ctx.count('random.large_histories')
        for _ in range(rng.randint(1, 25)):
            r = rng.random()
            cid = rng.randrange(ncur)
            if r < 0.05 and ncur < 3:
                hist.append(('new', ncur))
                ncur += 1
            elif r < 0.10:
                # a cursor returned by Connection.execute(), new or replacing the handle cid
                if ncur < 4 and rng.random() < 0.6:
                    hist.append(('cexec', ncur, rng.choice(sizes)))
                    ncur += 1
                else:
                    hist.append(('cexec', cid, rng.choice(sizes)))
            elif r < 0.22:
                hist.append(('exec', cid, rng.choice(sizes)))
            elif r < 0.23:
                hist.append(('execmany', cid, [rng.choice(sizes) for _ in range(rng.choice([1, 2, 3]))]))
            elif r < 0.27:
                hist.append(rng.choice([('execfail', cid, rng.randrange(3)), ('execreject', cid, rng.randrange(4))]))
            elif r < 0.45:
                hist.append(('one', cid))
            elif r < 0.65:
                hist.append(('many', cid, rng.choice(many)))
            elif r < 0.75:
                hist.append(('all', cid))
            elif r < 0.85:
                hist.append(('iter', cid, rng.choice([None, None, 1, 2])))
            elif r < 0.92:
                hist.append(('arraysize', cid, rng.choice(asizes)))
            else:
                hist.append(('desc', cid))
        problems, ndeliv = run_history(ctx, hist, 'random', lite, nmax=BIG if big else 12)
        ctx.case(('rnd', tuple(hist)), ndeliv >= 2)
        ctx.count('random.executed')
        if len(ctx.samples) < 3 and ndeliv >= 2:
            ctx.sample({'history': [list(h) for h in hist]})
        report(ctx, problems, hist)
    ctx.count('obs.contract_evaluations', _contract_evals[0])


def report(ctx, problems, hist):
    for p in problems[:1]:
        if p.startswith('MODEL-vs-sqlite'):
            from ..core import HarnessError
            raise HarnessError(p + f' history={hist}')
        ctx.violation(classify(p), p, {'history': [list(h) for h in hist]})


def replay(ctx, case):
    engine.bq()
    install_contracts()
    hist = [tuple(h) for h in case['history']]
    nmax = BIG if any(len(h) > 2 and max(h[2] if isinstance(h[2], (list, tuple)) else [h[2]], default=0) > 12 for h in hist if h[0] in ('exec', 'cexec', 'execmany')) else 12
    problems, _ = run_history(ctx, hist, 'replay', None, nmax=nmax)
    report(ctx, problems, hist)


def finalize(merged):
    reasons = []
    c = merged['counters']
    if c.get('exhaustive.executed', 0) < c.get('exhaustive.total', 1):
        reasons.append('exhaustive history enumeration incomplete')
    if c.get('obs.contract_evaluations', 0) == 0:
        reasons.append('cursor contracts never evaluated')
    merged['extra']['exhaustive'] = c.get('exhaustive.executed', 0) >= c.get('exhaustive.total', 1)
    return reasons

"""C09 — parameters, constant folding, history independence of execution.

Oracles: (1) execute(stmt with placeholders, params) == execute(stmt with the values
written as literals); (2) a folded constant expression == the same expression
evaluated per row from columns holding the constants; (3) offline history checker:
every execute of a recorded history on one connection == the same (statement,
params) executed alone on a fresh connection over an equal copy of the data;
(4) M5: the source data digest is unchanged after every history.
"""
import copy
import hashlib
import pickle
from decimal import InvalidOperation

from .. import engine, gen, ir, model, ledgers
from ..ir import T_INT, T_DEC, T_STR, T_DATE, T_BOOL
from ..values import same_rows, first_row_diff, show, show_rows, same

ID = 'C09'
LEVEL = 'exploration'
RULE = ('Parameter part: random statements with 1-6 placeholders (positional %s or named %(n)s with repeated names) of every '
        'literal type (int, decimal, str, date, bool, NULL, negative numbers) placed in targets, WHERE, BETWEEN bounds, function '
        'arguments, ORDER BY expressions, IN sub-queries and FROM sub-queries, in non-commutative contexts so that the binding '
        'order is observable; compared with the literal form. Folding part: random constant expressions (depth <= 3/5) folded vs '
        'column-fed. History part: histories of 3-12 executes on one connection mixing: the same parsed statement object '
        're-executed with different parameters, executemany, aggregates, IN-sub-queries, OPEN/CLOSE/CLEAR statements followed by '
        'plain ones, several cursors - each outcome compared with a fresh connection over a copy of the data; source digest '
        'compared before/after. A case is distinct by statement+params(+history); non-trivial when it has >=2 placeholders, '
        'or is a history of >=3 executes.')
ASSUMPTIONS = [
    'parameter containers of the wrong kind (mapping for %s, sequence for %(name)s) are outside this check (see C05)',
    'output names are compared only for aliased targets (the source text of a placeholder differs from the literal)',
]
_LIT = ir.Style()
_LIT.param_style = 'literal'
EXC_BOTH = (InvalidOperation, OverflowError)


def digest_entries(entries):
    from beancount.core.compare import hash_entry
    h = hashlib.sha256()
    for e in entries:
        h.update(hash_entry(e).encode())
    try:
        h.update(pickle.dumps(entries))
    except Exception:  # noqa: BLE001
        pass
    return h.hexdigest()


def outcome(conn, stmt, params=None, via=None):
    """-> ('ok', names, dtypes, rows) or ('exc', class name, message)."""
    try:
        cur = (via or conn).execute(stmt, params)
        desc = cur.description
        return ('ok', [d.name for d in desc], [d.datatype for d in desc], cur.fetchall())
    except Exception as exc:  # noqa: BLE001
        return ('exc', type(exc).__name__, str(exc))


def same_outcome(a, b, names=True):
    if a[0] != b[0]:
        return False
    if a[0] == 'exc':
        return a[1] == b[1]
    if names and a[1] != b[1]:
        return False
    return a[2] == b[2] and same_rows(a[3], b[3])


def describe(o):
    if o[0] == 'exc':
        return f'{o[1]}: {o[2][:120]}'
    return f'rows={show_rows(o[3], 4)} types={[getattr(t, "__name__", t) for t in o[2]]}'


# ---------------------------------------------------------------------------
# parameters

def param_value(rng, t):
    pool = {T_INT: [0, 1, 2, 3, -1, -3, 7], T_DEC: [gen.D('1.50'), gen.D('-1.5'), gen.D('0.001'), gen.D('2'), gen.D('100')],
            T_STR: ['a', '', 'b', 'x1', '^a', 'A', 'Cafe\u0301', '\u00e9', 'e\u0301', 'it\'s', 'tab\there'],      # (decomposed / precomposed accents are different strings)
            T_DATE: gen.LITS[T_DATE], T_BOOL: [True, False]}[t]
    return rng.choice(pool)


def param_query(rng, named):
    """A statement with placeholders in non-commutative contexts."""
    names = iter(f'p{i}' for i in range(20))
    used = []

    def P(t, value=None):
        v = param_value(rng, t) if value is None else value
        if named:
            if used and rng.random() < 0.25:
                prev = rng.choice([u for u in used])
                if prev.type == t:
                    return ir.param(prev.value, name=prev.name, type=t)
            p = ir.param(v, name=next(names), type=t)
        else:
            p = ir.param(v, type=t)
        used.append(p)
        return p

    i, j, d, s, dt = (ir.col('i', T_INT), ir.col('j', T_INT), ir.col('d', T_DEC), ir.col('s', T_STR), ir.col('dt', T_DATE))
    shapes = [
        lambda: ir.bin_('sub', P(T_INT), P(T_INT), T_INT),
        lambda: ir.bin_('div', P(T_DEC), P(T_INT, rng.choice([1, 2, 3, 7])), T_DEC),
        lambda: ir.bin_('sub', ir.bin_('mul', i, P(T_INT), T_INT), P(T_INT), T_INT),
        lambda: ir.func('substr', [P(T_STR, rng.choice(['abcdef', 'hello world'])), P(T_INT, rng.choice([0, 1, 2])), P(T_INT, rng.choice([3, 4, 5]))], T_STR),
        lambda: ir.between(i, P(T_INT), P(T_INT)),
        lambda: ir.between(P(T_DEC), d, P(T_DEC)),
        lambda: ir.bin_('sub', dt, P(T_INT), T_DATE),
        lambda: ir.bin_('sub', P(T_DATE), P(T_DATE), T_INT),
        lambda: ir.bin_('lt', P(T_STR), s, T_BOOL),
        lambda: ir.func('coalesce', [s, P(T_STR)], T_STR),
        lambda: ir.bin_('mod', P(T_INT), P(T_INT, rng.choice([2, 3, 5])), T_INT),
        lambda: ir.un('isnull', ir.param(None, name=(next(names) if named else None), type=ir.T_NULL), T_BOOL),
        lambda: ir.bin_('in', i, ir.subq(ir.Query(targets=[ir.Target(ir.col('j', T_INT))], table='t',
                                                 where=ir.bin_('gt', ir.col('j', T_INT), P(T_INT), T_BOOL))), T_BOOL),
        lambda: ir.and_(ir.bin_('gt', i, P(T_INT), T_BOOL), ir.bin_('le', j, P(T_INT), T_BOOL)),
        # a boolean placeholder beside operands that are NULL on some rows: AND stops at the first NULL or false operand,
        # wherever the constant stands
        lambda: ir.and_(ir.col('b', T_BOOL), P(T_BOOL)),
        lambda: ir.and_(ir.col('b', T_BOOL), ir.col('c', T_BOOL), P(T_BOOL, False)),
        lambda: ir.and_(P(T_BOOL), ir.col('c', T_BOOL)),
        lambda: ir.or_(ir.col('b', T_BOOL), P(T_BOOL)),
        lambda: ir.or_(P(T_BOOL, True), ir.col('b', T_BOOL), ir.col('c', T_BOOL)),
        lambda: ir.un('isnull', ir.and_(ir.bin_('gt', i, P(T_INT), T_BOOL), P(T_BOOL, False)), T_BOOL),
    ]
    targets = [ir.Target(ir.col('k', T_INT))]
    for n in range(rng.randint(1, 3)):
        e = rng.choice(shapes)()
        targets.append(ir.Target(e, f'c{n}'))
    where = None
    if rng.random() < 0.6:
        e = rng.choice(shapes)()
        where = e if e.type == T_BOOL else ir.un('isnotnull', e, T_BOOL)
    q = ir.Query(targets=targets, table='t', where=where)
    if rng.random() < 0.4:
        q.order_by = [ir.Key('expr', ir.bin_('mul', ir.col('i', T_INT), P(T_INT, rng.choice([1, -1, 2])), T_INT), rng.choice([None, True])),
                      ir.Key('index', 1)]
    r = rng.random()
    if r < 0.2:
        # the same expression shape bound to DIFFERENT values in a target and in an ORDER BY / GROUP BY expression
        a, b = rng.sample([1, -1, 2, 3, -2], 2)
        shape = rng.choice(['mul', 'add', 'sub'])
        t_int = T_INT
        q = ir.Query(targets=[ir.Target(ir.col('k', T_INT)), ir.Target(ir.bin_(shape, ir.col('i', T_INT), P(T_INT, a), t_int), 'x')], table='t',
                     order_by=[ir.Key('expr', ir.bin_(shape, ir.col('i', T_INT), P(T_INT, b), t_int), rng.choice([None, True])), ir.Key('index', 1)])
        return q
    if r < 0.3:
        a, b = rng.sample([0, 1, 2, 5], 2)
        q = ir.Query(targets=[ir.Target(ir.bin_('gt', ir.col('i', T_INT), P(T_INT, a), T_BOOL), 'g'), ir.Target(ir.agg('count', [], T_INT), 'n')], table='t',
                     group_by=[ir.Key('index', 1)], order_by=[ir.Key('expr', ir.agg('sum', [ir.bin_('gt', ir.col('j', T_INT), P(T_INT, b), T_BOOL)], T_INT), None), ir.Key('index', 1)])
        q.order_by = [ir.Key('index', 2), ir.Key('index', 1)]
        q.having = ir.bin_('ge', ir.agg('count', [], T_INT), P(T_INT, 0), T_BOOL)
        return q
    if rng.random() < 0.2:
        inner = q
        q = ir.Query(targets=[ir.Target(ir.col('k', T_INT)), ir.Target(ir.bin_('add', ir.col('k', T_INT), P(T_INT), T_INT), 'kk')],
                     subquery=ir.Query(targets=[t for t in inner.targets if t.expr.type != ir.T_NULL], table='t', where=inner.where))
    return q


def params_of(q, named):
    ps = q.params()
    if named:
        return {p.name: p.value for p in ps}
    return [p.value for p in ps]


def run_param_case(ctx, rng, n):
    named = rng.random() < 0.4
    q = param_query(rng, named)
    mt = gen.gen_table(rng, 't', max_rows=8)
    conn = engine.connection([mt])
    text = ir.to_text(q)
    lit = ir.to_text(q, _LIT)
    params = params_of(q, named)
    a = outcome(conn, text, params)
    b = outcome(engine.connection([mt]), lit)
    nph = len(q.params())
    ctx.case((text, repr(params), gen.table_digest(mt)), nph >= 2)
    ctx.count('obs.param_cases')
    ctx.count('obs.placeholders_bound', nph)
    ctx.count('param.named' if named else 'param.positional')
    case = {'replay': ['params', n], 'statement': text, 'params': show(params if not named else dict(params)), 'literal_form': lit,
            'columns': mt.columns, 'rows': show_rows(mt.rows, 20)}
    if len(ctx.samples) < 3 and nph >= 2:
        ctx.sample({'statement': text, 'params': case['params'], 'literal_form': lit})
    if a[0] == 'exc' and b[0] == 'exc' and a[1] == b[1]:
        ctx.count('excluded.both_raise')
        return
    if not same_outcome(a, b, names=True):
        ctx.violation('c09.param_vs_literal', f'{text} with {case["params"]}: {describe(a)}  vs literal {lit}: {describe(b)}', case)
        return
    # the model as a third opinion on the bound values
    try:
        _, _, mrows = model.run_query(q, {'t': mt})
        if a[0] == 'ok' and not same_rows(a[3], mrows):
            ctx.violation('c09.param_vs_model', f'{text} with {case["params"]}: engine {show_rows(a[3], 3)} model {show_rows(mrows, 3)}', case)
    except (model.ModelError, *EXC_BOTH):
        pass


# ---------------------------------------------------------------------------
# folding

def run_fold_case(ctx, rng, n):
    depth = ctx.pick(3, 5)
    g = gen.ExprGen(rng, cols_by_type={}, max_depth=depth, obj=False)
    t = rng.choice([T_INT, T_DEC, T_STR, T_DATE, T_BOOL])
    e = g.expr(t, rng.randint(2, depth))
    lits = [n for n in e.walk() if n.kind == 'lit' and n.type in (T_INT, T_DEC, T_STR, T_DATE, T_BOOL)]
    if not lits or any(n.kind == 'lit' and n.type in (ir.T_NULL,) for n in e.walk()):
        ctx.count('skipped.fold_no_literals')
        return
    # folded form: constants only ; fed form: every literal replaced by a column of a one-row table
    cols = [('k', T_INT)]
    row = [0]
    mapping = {}
    for i, n in enumerate(lits):
        cols.append((f'c{i}', n.type))
        row.append(n.value)
        mapping[id(n)] = ir.col(f'c{i}', n.type)

    def subst(n):
        if id(n) in mapping:
            return mapping[id(n)]
        if n.kind == 'lit':
            return n
        m = ir.E(n.kind, n.type, n.op, [subst(a) for a in n.args], n.value, n.name, n.q)
        return m
    fed = subst(e)
    mt = model.ModelTable('one', cols, [tuple(row)])
    conn = engine.connection([mt])
    qa = ir.Query(targets=[ir.Target(e, 'r')], table='one')
    qb = ir.Query(targets=[ir.Target(fed, 'r')], table='one')
    a = outcome(conn, ir.to_ast(qa))
    b = outcome(conn, ir.to_ast(qb))
    text = ir.to_text(qa, _LIT)
    ctx.case(('fold', text), e.depth() >= 3)
    ctx.count('obs.fold_cases')
    case = {'replay': ['fold', n], 'folded': text, 'column_fed': ir.to_text(qb, _LIT), 'row': show(row)}
    if a[0] == 'exc' and b[0] == 'exc' and a[1] == b[1]:
        ctx.count('excluded.both_raise')
        return
    if a[0] == 'exc' and a[1] in ('InvalidOperation', 'OverflowError', 'DivisionImpossible') and b[0] == 'exc':
        ctx.count('excluded.both_raise')
        return
    if not same_outcome(a, b):
        ctx.violation('c09.folding', f'{text}: folded {describe(a)} vs column-fed {describe(b)}', case)
    # the compiled folded form must really be a constant
    try:
        from beanquery import compiler, query_compile
        c = compiler.compile(conn, ir.to_ast(qa))
        if isinstance(c.c_targets[0].c_expr, query_compile.EvalConstant):
            ctx.count('obs.fold_really_folded')
    except Exception:  # noqa: BLE001
        pass


# ---------------------------------------------------------------------------
# histories

LEDGER_STATEMENTS = [
    ('SELECT account, sum(position) AS s GROUP BY account ORDER BY account', None),
    # wildcards over sub-queries with different output names (and over a NULL-typed output): what one left behind is not to show in another
    ('SELECT * FROM (SELECT account AS acc, number AS n FROM #postings WHERE number > %s)', [gen.D('10')]),
    ('SELECT * FROM (SELECT %s AS x, %s AS y)', [3, 'three']),
    ('SELECT * FROM (SELECT date AS d, payee, NULL AS nothing FROM #transactions)', None),
    ('SELECT * FROM (SELECT y, x FROM (SELECT number AS x, account AS y FROM #postings WHERE currency = %s))', ['USD']),
    ('SELECT date, account, position, balance WHERE account ~ %s', ['Assets']),
    ('SELECT account, sum(position) AS s FROM OPEN ON 2019-06-01 CLOSE ON 2020-06-01 CLEAR GROUP BY account ORDER BY account', None),
    ('SELECT account, count(*) AS n FROM CLOSE ON 2020-01-01 GROUP BY 1 ORDER BY 1', None),
    ('SELECT date, narration, number WHERE number > %s AND currency = %s ORDER BY date, number', [gen.D('100'), 'USD']),
    ('SELECT date, account WHERE account IN (SELECT account FROM #accounts WHERE account ~ %(pat)s) ORDER BY 1, 2', {'pat': 'Expenses'}),
    ('SELECT DISTINCT payee ORDER BY payee', None),
    ('BALANCES FROM year = %s', [2020]),
    ('JOURNAL "Cash"', None),
    ('SELECT year, month, sum(cost(position)) AS c GROUP BY year, month ORDER BY year, month', None),
    ('SELECT account, first(date) AS f, last(date) AS l, min(number) AS mn, max(number) AS mx GROUP BY account ORDER BY account', None),
    ('SELECT type, count(*) AS n FROM #entries GROUP BY type ORDER BY type', None),
    ('SELECT date, account, balance FROM year >= %s AND year <= %s', [2019, 2020]),
    ('SELECT account, balance FROM OPEN ON 2020-01-01 WHERE account ~ "Assets"', None),
    ('SELECT DISTINCT open_date(parent(account)) AS o, close_date(root(account, 1)) AS c, open_meta(leaf(account), "note") AS m ORDER BY 1, 2', None),
    ('SELECT open_date(%s) AS o, close_date(%s) AS c, currency_meta(%s, "name") AS n LIMIT 1', ['Assets:Nope', 'Income', 'NOPE']),
    ('SELECT account FROM #accounts ORDER BY account', None),
    ('SELECT count(*) AS n, count(open) AS o, count(close) AS c FROM #accounts', None),
    ('SELECT name FROM #commodities ORDER BY name', None),
]


INVS_STATEMENTS = [
    ('SELECT g, sum(inv) AS s, count(*) AS n FROM #invs GROUP BY g ORDER BY g', None),
    ('SELECT sum(inv) AS s, first(inv) AS f, last(inv) AS l FROM #invs WHERE a ~ %s', ['Assets']),
    ('SELECT g, units(sum(inv)) AS u, cost(sum(inv)) AS c FROM #invs GROUP BY g HAVING count(*) > %s ORDER BY g', [0]),
    ('SELECT a, inv, units(inv) AS u FROM #invs WHERE NOT empty(inv) ORDER BY a', None),
    ('SELECT g, sum(inv) AS s FROM (SELECT g, a, inv FROM #invs WHERE g != %(pat)s) GROUP BY g ORDER BY g', {'pat': 'Income'}),
]


def param_variants(rng, params):
    if params is None:
        return None
    if isinstance(params, dict):
        return {k: rng.choice(['Expenses', 'Assets', 'Income', 'Food']) for k in params}
    out = []
    for p in params:
        if isinstance(p, str):
            out.append(rng.choice(['Assets', 'Expenses', 'USD', 'EUR', 'Cash']))
        elif isinstance(p, int):
            out.append(rng.choice([2019, 2020, 2021]))
        else:
            out.append(rng.choice([gen.D('100'), gen.D('5'), gen.D('1000.50')]))
    return out


def run_history(ctx, rng, n):
    """A history of executes on one connection; each outcome vs a fresh connection."""
    led = ledgers.gen_ledger(rng, ntxn=rng.randint(5, 14))
    mt = gen.gen_table(rng, 't', max_rows=8)
    conn = engine.connection([mt], ledger=led.loaded)
    entries = led.entries
    before = digest_entries(entries)
    rows_before = copy.deepcopy(mt.rows)
    # a table whose cells are inventory objects handed out by reference on every scan (mutable source data)
    from beancount.core import inventory as _inv
    try:
        base = conn.execute('SELECT root(account, 1) AS g, account AS a, sum(position) AS inv FROM #postings GROUP BY 1, 2').fetchall()
    except Exception:  # noqa: BLE001
        base = []
    invs = model.ModelTable('invs', [('g', str), ('a', str), ('inv', _inv.Inventory)], [tuple(r) for r in base])
    invs_before = copy.deepcopy(invs.rows)
    conn.tables['invs'] = engine.harness_table(invs)
    from beanquery import parser
    parsed = {}
    steps = []
    cursors = [conn.cursor()]
    length = rng.randint(3, 12)
    for s in range(length):
        r = rng.random()
        if r < 0.2:
            text, params = rng.choice(INVS_STATEMENTS)
            params = param_variants(rng, params)
        elif r < 0.5:
            text, params = rng.choice(LEDGER_STATEMENTS)
            params = param_variants(rng, params)
        else:
            named = rng.random() < 0.4
            q = param_query(rng, named)
            text, params = ir.to_text(q), params_of(q, named)
            if not q.params():
                params = None
        mode = rng.choice(['text', 'parsed', 'parsed', 'many', 'cursor'])
        steps.append((mode, text, params))
    problems = []
    executed = 0
    for step, (mode, text, params) in enumerate(steps):
        fresh_conn = engine.connection([model.ModelTable('t', mt.columns, rows_before)], ledger=ledgers.Ledger(led.text).loaded)
        fresh_conn.tables['invs'] = engine.harness_table(model.ModelTable('invs', invs.columns, copy.deepcopy(invs_before)))
        if mode == 'parsed':
            # the same parsed statement object re-executed (with different parameters when it has any)
            if text not in parsed:
                try:
                    parsed[text] = parser.parse(text)
                except Exception:  # noqa: BLE001
                    parsed[text] = text
            if params and rng.random() < 0.35:
                # ... after an execution of the same object that is refused for its parameters (too few, too many, a missing name)
                if isinstance(params, dict):
                    wrong = {k: v for k, v in list(params.items())[:-1]}
                else:
                    wrong = rng.choice([list(params)[:-1], list(params) + [1]])
                refused = outcome(conn, parsed[text], wrong)
                ctx.count('obs.refused_executions')
                if refused[0] != 'exc':
                    problems.append(('c09.wrong_parameters_accepted', f'step {step} {text} executed with {show(wrong)} (statement has {len(params)} placeholders): accepted'))
                    break
            a = outcome(conn, parsed[text], params)
            variants = [params]
            if params is not None and rng.random() < 0.7:
                variants.append(param_variants(rng, params) if text in [t for t, _ in LEDGER_STATEMENTS + INVS_STATEMENTS] else params)
            for p2 in variants[1:]:
                a = outcome(conn, parsed[text], p2)
                params = p2
                executed += 1
            b = outcome(fresh_conn, text, params)
        elif mode == 'many' and params is not None:
            cur = conn.cursor()
            plist = [params] + [param_variants(rng, params) if text in [t for t, _ in LEDGER_STATEMENTS + INVS_STATEMENTS] else params for _ in range(rng.randint(1, 2))]
            try:
                # (the parameter sets as a list, as an iterator or from a generator: any iterable of sets)
                cur.executemany(text, [plist, iter(plist), (x for x in plist)][executed % 3])
                desc = cur.description
                a = ('ok', [d.name for d in desc], [d.datatype for d in desc], cur.fetchall())
            except Exception as exc:  # noqa: BLE001
                a = ('exc', type(exc).__name__, str(exc))
            params = plist[-1]
            b = outcome(fresh_conn, text, params)
            ctx.count('obs.executemany')
        elif mode == 'cursor':
            if rng.random() < 0.3:
                cursors.append(conn.cursor())
            a = outcome(conn, text, params, via=rng.choice(cursors))
            b = outcome(fresh_conn, text, params)
        else:
            a = outcome(conn, text, params)
            b = outcome(fresh_conn, text, params)
        executed += 1
        ctx.count('obs.history_executes')
        ctx.count(f'obs.mode.{mode}')
        if a[0] == 'exc' and b[0] == 'exc' and a[1] == b[1]:
            continue
        if not same_outcome(a, b):
            mech = 'c09.history_dependence'
            if a[0] == 'exc' and 'cannot be mixed' in a[2]:
                mech = 'c09.positional_placeholders_renumbered_on_ast'
            problems.append((mech, f'step {step} [{mode}] {text} params={show(params)}: in history {describe(a)} ; alone {describe(b)}'))
            break
    after = digest_entries(entries)
    hist = [{'mode': m, 'statement': t, 'params': show(p)} for m, t, p in steps]
    ctx.case(('hist', tuple((m, t, repr(p)) for m, t, p in steps)), len(steps) >= 3)
    ctx.count('obs.histories')
    case = {'replay': ['hist', n], 'history': hist, 'ledger': led.text, 'rows': show_rows(mt.rows, 20)}
    if before != after:
        ctx.violation('c09.source_mutated', 'ledger entries digest changed during the history', case)
    if mt.rows != rows_before:
        ctx.violation('c09.source_mutated', 'harness table rows changed during the history', case)
    if invs.rows != invs_before:
        k = next(i for i, (a, b) in enumerate(zip(invs.rows, invs_before)) if a != b)
        ctx.violation('c09.source_mutated', f'the rows of the inventory table #invs changed during the history: row {k} is now {show(invs.rows[k])}, it was {show(invs_before[k])}', case)
    ctx.count('obs.digest_comparisons')
    for mech, p in problems:
        ctx.violation(mech, p, case)


COLD_STATEMENTS = [
    'SELECT account, sum(position) AS s GROUP BY account ORDER BY account',
    'SELECT date, account, position, balance WHERE account ~ "Assets"',
    'SELECT date, account, position, balance WHERE account ~ "assets:bank"',
    'SELECT date, account, number WHERE account ~ "^Expenses" AND number > 10 ORDER BY date, account, number',
    'SELECT account, sum(position) AS s FROM OPEN ON 2019-06-01 CLOSE ON 2020-06-01 CLEAR GROUP BY account ORDER BY account',
    'SELECT account, sum(position) AS s FROM OPEN ON 2019-06-01 CLOSE ON 2020-06-01 GROUP BY account ORDER BY account',
    'SELECT account, count(*) AS n FROM CLOSE ON 2020-01-01 GROUP BY 1 ORDER BY 1',
    'SELECT account, count(*) AS n FROM CLOSE GROUP BY 1 ORDER BY 1',
    'SELECT date, narration, number WHERE number > 100 AND currency = "USD" ORDER BY date, number',
    'SELECT date, narration, number WHERE number > 5 AND currency = "EUR" ORDER BY date, number',
    'SELECT date, account WHERE account IN (SELECT account FROM #accounts WHERE account ~ "Expenses") ORDER BY 1, 2',
    'SELECT date, account WHERE account IN (SELECT account FROM #accounts WHERE account ~ "Income") ORDER BY 1, 2',
    'SELECT DISTINCT payee ORDER BY payee', 'SELECT DISTINCT root(account, 1) AS r ORDER BY r', 'SELECT DISTINCT root(account, 2) AS r ORDER BY r',
    'SELECT DISTINCT parent(account) AS p, leaf(account) AS l ORDER BY p, l', 'SELECT DISTINCT account, root(account, 3) AS a, root(account, 1) AS b, parent(account) AS c ORDER BY account',
    'BALANCES', 'BALANCES WHERE account ~ "Assets"', 'BALANCES AT cost FROM year = 2020', 'JOURNAL "Bank"', 'JOURNAL "Bank" FROM year = 2020', 'JOURNAL', 'JOURNAL AT units FROM flag = "*"', 'JOURNAL AT units',
    'BALANCES FROM year = 2020', 'BALANCES AT cost', 'BALANCES AT units FROM year = 2019', 'JOURNAL "Cash"', 'JOURNAL "Bank" AT cost', 'JOURNAL "Cash" FROM year = 2020',
    'SELECT year, month, sum(cost(position)) AS c GROUP BY year, month ORDER BY year, month',
    'SELECT account, first(date) AS f, last(date) AS l, min(number) AS mn, max(number) AS mx GROUP BY account ORDER BY account',
    'SELECT type, count(*) AS n FROM #entries GROUP BY type ORDER BY type',
    'SELECT date, account, balance FROM year >= 2019 AND year <= 2020',
    'SELECT account, balance FROM OPEN ON 2020-01-01 WHERE account ~ "Assets"',
    'SELECT account, open_date(account) AS o, close_date(account) AS c, open_meta(account, "note") AS n FROM #accounts ORDER BY account',
    'SELECT DISTINCT currency, getprice(currency, "USD") AS p, getprice(currency, "USD", 2020-01-01) AS q, currency_meta(currency, "name") AS n ORDER BY currency',
    'SELECT date, account, convert(position, "USD") AS c, value(position) AS v, convert(position, "EUR", 2020-06-30) AS e ORDER BY date, account',
    'SELECT date, account, has_account("Food") AS f, has_account("Broker") AS b, any_meta("note") AS n, entry_meta("ref") AS r',
    'SELECT date_trunc("month", date) AS m, date_trunc("year", date) AS y, date_bin("3 months", date, 2019-01-31) AS b, count(*) AS n GROUP BY 1, 2, 3 ORDER BY 1, 2, 3',
    'SELECT quarter(date) AS q, weekday(date) AS w, yearmonth(date) AS ym, count(*) AS n GROUP BY 1, 2, 3 ORDER BY 1, 2, 3',
    'SELECT account, year, sum(position) AS s GROUP BY 1, 2 PIVOT BY 1, 2',
    'SELECT account, currency, sum(number) AS s GROUP BY 1, 2 PIVOT BY 1, 2',
    'SELECT payee, narration, str(number) AS s, length(narration) AS l, upper(payee) AS u WHERE payee IS NOT NULL ORDER BY date, account, number',
    'SELECT narration, grep("[a-z]+", narration) AS g, grepn("(a)(.)", narration, 2) AS g2, subst("a", "A", narration) AS su, splitcomp(account, ":", 1) AS sc ORDER BY date, account, number',
    'SELECT narration, grep("[A-Z]+", narration) AS g, grepn("(A)(.)", narration, 1) AS g2, subst("A", "a", narration) AS su, splitcomp(account, ":", 0) AS sc ORDER BY date, account, number',
    'SELECT account, account_sortkey(account) AS k, possign(number, account) AS ps ORDER BY k, date, number',
    'SELECT date, account, units(position) AS u, cost(position) AS c, weight AS w, price AS p WHERE cost_number IS NOT NULL',
    'SELECT tags, links, count(*) AS n FROM #transactions GROUP BY tags, links ORDER BY n',
    'SELECT date, comment FROM #notes ORDER BY date, comment', 'SELECT date, currency, amount FROM #prices ORDER BY date, currency',
    'SELECT date, account, amount FROM #balances ORDER BY date, account', 'SELECT name, date FROM #commodities ORDER BY name',
    'SELECT account, sum(position) AS s, count(*) AS n WHERE "trip" IN tags GROUP BY account ORDER BY account',
    'SELECT coalesce(payee, narration) AS who, sum(number) AS s WHERE currency = "USD" GROUP BY who ORDER BY who',
    'SELECT account, filter_currency(sum(position), "USD") AS u, only("USD", sum(position)) AS o GROUP BY account ORDER BY account',
    'SELECT 1 + 2 * 3 AS a, "x" ~ "X" AS b, 2020-01-31 + 1 AS c, round(2.567, 2) AS d, 7 / 2 AS e, 7 % 4 AS f LIMIT 1',
    'SELECT 1 + 2 * 3.0 AS a, "x" ~ "y" AS b, 2020-02-28 + 1 AS c, round(2.567, 1) AS d, 7.0 / 2 AS e, 7 % 4.0 AS f LIMIT 1',
]


def cold_process_part(ctx):
    """Process-wide history independence: a corpus of statements is executed at the end of this long-lived process (after
    everything the shard has executed so far, twice, on long-lived connections), and in a NEW interpreter that executes
    every statement on a connection of its own, in the reverse order. The normalised outcomes must agree."""
    import json
    import os
    import subprocess
    import sys
    from .. import coldref
    rng = ctx.rng('cold')
    leds = {'A': ledgers.gen_ledger(rng, ntxn=rng.randint(6, 12)), 'B': ledgers.gen_ledger(rng, ntxn=rng.randint(6, 12))}
    conns = {k: engine.connection(ledger=v.loaded) for k, v in leds.items()}
    stmts = rng.sample(COLD_STATEMENTS, ctx.pick(24, len(COLD_STATEMENTS)))
    jobs = [[i, k, t] for i, (k, t) in enumerate((k, t) for t in stmts for k in ('A', 'B'))]
    # the named queries of the ledgers: run through a shell session (`.run name` closes the period at the directive's date
    # on the statement it executes) before the very same texts are executed on the long-lived connections
    import contextlib
    import io
    import tempfile
    from beancount.core import data
    from beanquery import shell
    for k, led in leds.items():
        named = [e for e in led.entries if isinstance(e, data.Query)]
        if not named:
            continue
        fd, path = tempfile.mkstemp(suffix='.beancount', prefix='bqv-c09-')
        os.close(fd)
        try:
            with open(path, 'w') as f:
                f.write(led.text)
            with contextlib.redirect_stdout(io.StringIO()), contextlib.redirect_stderr(io.StringIO()):
                sh = shell.BQLShell(path, io.StringIO(), interactive=False, runinit=False, format='csv')
                for e in named:
                    try:
                        sh.onecmd(f'.run {e.name}')
                        ctx.count('obs.cold_named_queries_run_in_shell')
                    except Exception:  # noqa: BLE001
                        pass
        finally:
            os.unlink(path)
        for e in named:
            jobs.append([len(jobs), k, e.query_string])
    rng.shuffle(jobs)
    for j, (jid, k, t) in enumerate(jobs):
        jobs[j][0] = j
    # warm-up in another order, then the recorded pass
    for jid, k, t in rng.sample(jobs, len(jobs)):
        coldref.outcome(conns[k], t)
    hot = {str(jid): coldref.outcome(conns[k], t) for jid, k, t in jobs}
    env = dict(os.environ)
    env['PYTHONHASHSEED'] = '0'
    here = os.path.dirname(os.path.dirname(os.path.dirname(os.path.abspath(__file__))))
    env['PYTHONPATH'] = os.pathsep.join(x for x in (os.environ.get('BEANQUERY_VERIF_REPO'), here) if x)
    try:
        p = subprocess.run([sys.executable, '-m', 'bqverif.coldref'], input=json.dumps({'ledgers': {k: v.text for k, v in leds.items()}, 'jobs': jobs}),
                           capture_output=True, text=True, timeout=600, env=env, cwd=here)
        cold = json.loads(p.stdout)
    except Exception as exc:  # noqa: BLE001
        ctx.count('inconclusive.cold_process_failed')
        ctx.notes.append(f'cold reference process failed: {exc!r}')
        return
    alt = os.environ.get('BEANQUERY_VERIF_REPO')
    if alt and not cold.get('beanquery', '').startswith(alt):
        ctx.count('inconclusive.cold_process_failed')
        ctx.notes.append(f"cold reference process imported {cold.get('beanquery')}")
        return
    ctx.count('obs.cold_process_runs')
    for jid, k, t in jobs:
        a, b = hot[str(jid)], cold['results'].get(str(jid))
        ctx.count('obs.cold_process_statements')
        ctx.case(('cold', leds[k].text, t), a.get('ok', False) and len(a.get('rows', [])) >= 2)
        if a != b:
            what = 'outcome'
            if a.get('ok') and b and b.get('ok'):
                if a['names'] != b['names'] or a['types'] != b['types']:
                    what = f"description {list(zip(a['names'], a['types']))} vs {list(zip(b['names'], b['types']))}"
                else:
                    n = next((i for i, (x, y) in enumerate(zip(a['rows'] + [None], b['rows'] + [None])) if x != y), 0)
                    what = f"row {n}: {a['rows'][n] if n < len(a['rows']) else None} vs {b['rows'][n] if n < len(b['rows']) else None}"
            ctx.violation('c09.process_history_dependence',
                          f'{t} (ledger {k}): at the end of a long-lived process and in a new interpreter the outcomes differ — {what}',
                          {'statement': t, 'ledger': leds[k].text, 'long_lived': str(a)[:600], 'new_interpreter': str(b)[:600]})
            return


def run(ctx):
    engine.bq()
    for n in range(ctx.pick(90, 2500)):
        if ctx.out_of_time():
            break
        run_param_case(ctx, ctx.rng('params', n), n)
    for n in range(ctx.pick(500, 12000)):
        if ctx.out_of_time():
            break
        run_fold_case(ctx, ctx.rng('fold', n), n)
    for n in range(ctx.pick(14, 400)):
        if ctx.out_of_time():
            break
        run_history(ctx, ctx.rng('hist', n), n)
    if ctx.shard % 4 == 0 or not ctx.quick:
        cold_process_part(ctx)


def replay(ctx, case):
    engine.bq()
    part, n = case['replay']
    {'params': run_param_case, 'fold': run_fold_case, 'hist': run_history}[part](ctx, ctx.rng(part, n), n)


def finalize(merged):
    reasons = []
    c = merged['counters']
    for k in ('obs.param_cases', 'obs.fold_cases', 'obs.histories', 'obs.digest_comparisons', 'obs.mode.parsed', 'obs.executemany', 'obs.refused_executions'):
        if c.get(k, 0) == 0:
            reasons.append(f'{k} == 0')
    if c.get('inconclusive.cold_process_failed', 0) or c.get('obs.cold_process_statements', 0) == 0:
        reasons.append('the cold-process reference did not run')
    if c.get('obs.fold_really_folded', 0) == 0:
        reasons.append('no constant expression was actually folded by the compiler')
    return reasons

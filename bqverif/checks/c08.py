"""C08 — sub-queries compose: FROM (subquery) / IN (subquery) equal materialised forms.

Three recorded executions per case: the inner query alone, the nested statement, and
the outer statement over a harness table materialised from the inner query's
recorded description and rows. The R2 model gives a further opinion on harness
tables. IN / NOT IN sub-queries read a different table than the outer statement.
"""
from decimal import InvalidOperation

from .. import engine, gen, ir, ledgers, model, monitors
from ..ir import T_INT, T_DEC, T_STR, T_DATE, T_BOOL, T_OBJ
from ..values import same_rows, first_row_diff, show, show_rows

ID = 'C08'
LEVEL = 'exploration'
RULE = ('FROM part: random inner queries (filtered, aggregated, ordered by hidden keys, DISTINCT, LIMIT, aliased and '
        'expression-named outputs, several columns of one type) nested 1-3 deep under random outer queries over their output '
        'columns; nested result vs the outer statement over the materialised inner result, and vs the R2 model; SELECT * FROM (q) '
        'vs q. IN part: x [NOT] IN (sub-query over a *different* table) in targets and WHERE, followed by further targets, GROUP BY '
        'and ORDER BY expressions of the outer table, vs membership in the recorded inner column (NULL for NULL x or empty result). '
        'Distinct by (statement, table digests); non-trivial when the inner result has >=2 rows and the outer statement filters, '
        'aggregates, orders or tests membership.')
ASSUMPTIONS = ['inner queries have distinct output names (a table cannot have two columns of one name)',
               'reference model R2 written from the property statements']
_LIT = ir.Style()
_LIT.param_style = 'literal'
EXC_BOTH = (InvalidOperation, OverflowError)

U_SCHEMA = [('k', T_INT), ('x', T_INT), ('y', T_STR), ('z', T_DEC), ('w', T_DATE)]


def gen_u(rng):
    rows = []
    few = rng.random() < 0.5      # few distinct values: many duplicates
    for r in range(rng.choice([0, 1, 3, 6, 9])):
        if few and rows and rng.random() < 0.6:
            prev = rng.choice(rows)
            rows.append((r, *prev[1:]))
            continue
        rows.append((r,
                     None if rng.random() < 0.15 else rng.choice(gen.POOL[T_INT]),
                     None if rng.random() < 0.15 else rng.choice(gen.POOL[T_STR]),
                     None if rng.random() < 0.15 else rng.choice(gen.POOL[T_DEC]),
                     None if rng.random() < 0.15 else rng.choice(gen.POOL[T_DATE])))
    return model.ModelTable('u', U_SCHEMA, rows)


def inner_query(rng, depth, ident_names):
    qg = gen.QueryGen(rng, max_depth=2, obj_keys=False)
    if rng.random() < 0.35:
        q = qg.aggregate()
    else:
        q = qg.simple(with_k=True)
    # distinct output names: alias everything that clashes or is not an identifier
    seen = set()
    for i, t in enumerate(q.targets):
        name = ir.target_name(t)
        if name in seen or rng.random() < 0.4 or (ident_names and not gen._ident_ok(name)):
            t.alias = f'o{i}'
            name = t.alias
        seen.add(name)
    if rng.random() < 0.4:
        q.order_by = qg.order_keys(q, aggregate=bool(q.group_by) or any(t.expr.has_agg() for t in q.targets))
    q.distinct = rng.random() < 0.15
    if rng.random() < 0.2:
        q.limit = rng.choice([0, 1, 2, 5])
    return q


def outer_query(rng, inner):
    """An outer query over the output columns of `inner`."""
    names = [ir.target_name(t) for t in inner.targets]
    types = [t.expr.type for t in inner.targets]
    cols = {}
    for n, t in zip(names, types):
        if t in (T_INT, T_DEC, T_STR, T_DATE, T_BOOL, T_OBJ):
            cols.setdefault(t, []).append(n)
    rng_ = rng
    if rng.random() < 0.2:
        return ir.Query(star=True, subquery=inner), 'star'
    g = gen.ExprGen(rng, cols_by_type=cols, max_depth=3, obj=T_OBJ in cols)
    targets = []
    for i in range(rng.randint(1, 3)):
        t = rng.choice(list(cols) or [T_INT])
        if t == T_OBJ:
            e = ir.col(rng.choice(cols[T_OBJ]), T_OBJ)
        else:
            e = g.expr(t, rng.randint(1, 3))
        targets.append(ir.Target(e, f'x{i}'))
    where = g.expr(T_BOOL, rng.randint(1, 3)) if rng.random() < 0.5 else None
    q = ir.Query(targets=targets, subquery=inner, where=where)
    kind = 'plain'
    if rng.random() < 0.3:
        # aggregate outer query grouped by one inner column
        keyable = [(n, t) for n, t in zip(names, types) if t in gen.KEY_TYPES]
        if keyable:
            n, t = rng.choice(keyable)
            q.targets = [ir.Target(ir.col(n, t), 'g'), ir.Target(ir.agg('count', [], T_INT), 'n')]
            num = [(n2, t2) for n2, t2 in zip(names, types) if t2 in (T_INT, T_DEC)]
            if num:
                n2, t2 = rng.choice(num)
                q.targets.append(ir.Target(ir.agg('sum', [ir.col(n2, t2)], t2), 's'))
            kind = 'aggregate'
            r2 = rng.random()
            if r2 < 0.25:
                # aggregates only: one group, no key at all
                q.targets = q.targets[1:]
                kind = 'aggregate-pure'
            elif r2 < 0.6:
                q.group_by = [rng.choice([ir.Key('index', 1), ir.Key('name', 'g'), ir.Key('expr', ir.col(n, t))])]
                kind = 'aggregate-explicit'
            else:
                kind = 'aggregate-implicit'
            if rng.random() < 0.3:
                rng.shuffle(q.targets)
                if q.group_by and q.group_by[0].kind == 'index':
                    q.group_by = [ir.Key('index', 1 + next(i for i, x in enumerate(q.targets) if x.alias == 'g'))]
    # the outer statement's own DISTINCT / LIMIT (with and without an ordering, filter or grouping)
    if rng.random() < 0.3:
        q.limit = rng.choice([0, 1, 1, 2, 3, 100])
    if rng.random() < 0.12:
        q.distinct = True
    if rng.random() < 0.5 and kind.startswith('aggregate'):
        return q, kind
    r = rng.random()
    if r < 0.35:
        ok = [(i, t) for i, t in enumerate(q.targets) if t.expr.type in gen.ORDERABLE]
        if ok:
            i, _ = rng.choice(ok)
            q.order_by = [ir.Key('index', i + 1, rng.choice([None, True]))]
    elif r < 0.7 and kind == 'plain':
        # hidden ordering keys over the sub-query's columns (selected or not), plain or inside an expression
        keyable = [(n, t) for n, t in zip(names, types) if t in gen.ORDERABLE]
        keys = []
        for n, t in rng.sample(keyable, min(len(keyable), rng.randint(1, 2))):
            e = ir.col(n, t)
            if t in (T_INT, T_DEC) and rng.random() < 0.3:
                e = ir.bin_('add', e, ir.lit(1, T_INT), t)
            keys.append(ir.Key('expr', e, rng.choice([None, True])))
        q.order_by = keys or None
        if keys:
            kind = 'plain-hidden-order'
    return q, kind


def python_type(t):
    return ir.pytype(t)


def run_from_case(ctx, rng, n, mon):
    t = gen.gen_table(rng, 't', max_rows=ctx.pick(8, 20))
    tables = {'t': t}
    depth = rng.choice([1, 1, 2, 3])
    route = 'text' if rng.random() < 0.15 else 'ast'
    # through the parser an output can be addressed by name only when the name is an identifier
    inner = inner_query(rng, depth, ident_names=(route == 'text'))
    for _ in range(depth - 1):
        # wrap: SELECT <cols> FROM (inner)
        names = [ir.target_name(x) for x in inner.targets]
        types = [x.expr.type for x in inner.targets]
        keep = [i for i in range(len(names)) if rng.random() < 0.8] or [0]
        inner = ir.Query(targets=[ir.Target(ir.col(names[i], types[i]), None if rng.random() < 0.5 else f'w{i}') for i in keep],
                         subquery=inner)
    outer, kind = outer_query(rng, inner)
    conn = engine.connection([t])
    text = ir.to_text(outer, _LIT)
    case = {'replay': ['from', n], 'statement': text, 'route': route, 'columns': t.columns, 'rows': show_rows(t.rows, 40)}
    # 1. inner alone
    try:
        inames, idtypes, irows = engine.run(conn, ir.to_ast(inner))
    except Exception as exc:  # noqa: BLE001
        ctx.count('skipped.inner_failed')
        return
    # 2. nested
    mon.reset()
    mon.enabled = True
    try:
        try:
            nnames, ndtypes, nrows = engine.run(conn, ir.to_text(outer) if route == 'text' else ir.to_ast(outer))
        finally:
            mon.enabled = False
    except EXC_BOTH:
        ctx.count('excluded.definition_raises')
        return
    except Exception as exc:  # noqa: BLE001
        # would the materialised form fail alike?
        nexc = exc
        nnames = None
    # 3. outer over the materialised inner result
    if len(set(inames)) != len(inames):
        ctx.count('skipped.duplicate_inner_names')
        return
    mat = model.ModelTable('mat', list(zip(inames, idtypes)), irows)
    conn2 = engine.connection([mat])
    flat = ir.Query(targets=outer.targets, star=outer.star, table='mat', where=outer.where, group_by=outer.group_by,
                    having=outer.having, order_by=outer.order_by, limit=outer.limit, distinct=outer.distinct)
    try:
        mnames, mdtypes, mrows = engine.run(conn2, ir.to_ast(flat))
    except EXC_BOTH:
        ctx.count('excluded.definition_raises')
        return
    except Exception as exc:  # noqa: BLE001
        if nnames is None and type(exc) is type(nexc):
            ctx.count('excluded.both_raise')
            return
        ctx.count('skipped.materialised_failed')
        return
    nontrivial = len(irows) >= 2 and (outer.where is not None or kind != 'plain' or outer.order_by)
    ctx.case((text, gen.table_digest(t), route), bool(nontrivial))
    ctx.count(f'obs.from_cases.{kind}')
    ctx.count(f'obs.nesting_depth.{depth}')
    if nnames is None:
        ctx.violation(f'c08.nested_raised.{monitors.classify_exception(nexc)}',
                      f'{text}: nested form raised {type(nexc).__name__}: {nexc}; materialised form returned {len(mrows)} rows', case)
        return
    if len(ctx.samples) < 3 and nontrivial and nrows:
        ctx.sample({'statement': text, 'inner_rows': show_rows(irows, 3), 'nested_rows': show_rows(nrows, 3)})
    if not same_rows(nrows, mrows):
        d = first_row_diff(nrows, mrows)
        ctx.violation('c08.from_subquery_vs_materialised',
                      f'{text}: row {d[0]} nested={show(d[1])} materialised={show(d[2])}', case,
                      {'inner': show_rows(irows, 30), 'nested': show_rows(nrows, 30), 'materialised': show_rows(mrows, 30)})
        return
    if nnames != mnames or ndtypes != mdtypes:
        ctx.violation('c08.from_subquery_description', f'{text}: nested description {list(zip(nnames, ndtypes))} vs materialised {list(zip(mnames, mdtypes))}', case)
        return
    if outer.star:
        ctx.count('obs.star_cases')
        if not same_rows(nrows, irows) or nnames != inames or ndtypes != idtypes:
            ctx.violation('c08.star_identity', f'{text}: SELECT * FROM (q) differs from q', case)
    if mon.dtype_violations:
        ctx.violation('c08.node_dtype', f'{text}: {mon.dtype_violations[0]}', case)
    # model opinion
    try:
        _, _, rrows = model.run_query(outer, tables)
        if not same_rows(nrows, rrows):
            d = first_row_diff(nrows, rrows)
            ctx.violation('c08.from_subquery_vs_model', f'{text}: row {d[0]} engine={show(d[1])} model={show(d[2])}', case)
    except (model.ModelError, *EXC_BOTH):
        ctx.count('skipped.model_domain')


def run_in_case(ctx, rng, n, mon):
    t = gen.gen_table(rng, 't', max_rows=ctx.pick(8, 20))
    u = gen_u(rng)
    tables = {'t': t, 'u': u}
    conn = engine.connection([t, u])
    # sub-query over #u returning one column
    ctype, cname = rng.choice([(T_INT, 'x'), (T_STR, 'y'), (T_DEC, 'z'), (T_DATE, 'w')])
    sub_where = None
    if rng.random() < 0.6:
        sub_where = rng.choice([
            ir.bin_('gt', ir.col('k', T_INT), ir.lit(rng.choice([0, 2, 5, 100]), T_INT), T_BOOL),
            ir.un('isnotnull', ir.col(cname, ctype), T_BOOL),
            ir.bin_('lt', ir.col('x', T_INT), ir.lit(rng.choice([0, 1, 3]), T_INT), T_BOOL)])
    sub = ir.Query(targets=[ir.Target(ir.col(cname, ctype))], table='u', where=sub_where)
    if rng.random() < 0.2:
        sub.distinct = True
    if rng.random() < 0.35:
        # LIMIT (and ORDER BY) inside the IN sub-query; #u holds duplicate values, so DISTINCT/LIMIT order matters
        sub.limit = rng.choice([0, 1, 2, 3, 4])
        if rng.random() < 0.5:
            sub.order_by = [ir.Key('expr', ir.col('k', T_INT), rng.choice([None, True]))]
        ctx.count('obs.in_subquery_with_limit')
    if rng.random() < 0.2 and sub.limit is None:
        # the sub-query itself reads from a sub-query
        sub = ir.Query(targets=[ir.Target(ir.col(cname, ctype))], subquery=ir.Query(targets=[ir.Target(ir.col(cname, ctype)), ir.Target(ir.col('k', T_INT))], table='u', where=sub_where))
    tcol = {T_INT: ['i', 'j'], T_STR: ['s', 't'], T_DEC: ['d', 'e'], T_DATE: ['dt', 'du']}[ctype]
    x = ir.col(rng.choice(tcol), ctype)
    member = ir.bin_(rng.choice(['in', 'notin']), x, ir.subq(sub), T_BOOL)
    g = gen.ExprGen(rng, max_depth=2)
    shape = rng.choice(['target', 'where', 'both', 'group', 'order'])
    targets = [ir.Target(ir.col('k', T_INT))]
    where = None
    q = ir.Query(targets=targets, table='t')
    if shape in ('target', 'both', 'order'):
        targets.append(ir.Target(member, 'm'))
    # further targets of the OUTER table after the sub-query (exposes shared current-table state)
    for i in range(rng.randint(1, 2)):
        tt = rng.choice([T_INT, T_STR, T_DEC, T_BOOL])
        targets.append(ir.Target(g.expr(tt, rng.randint(1, 2)), f'a{i}'))
    if shape in ('where', 'both', 'group'):
        where = member if rng.random() < 0.6 else ir.and_(member, g.expr(T_BOOL, 2))
        q.where = where
    if shape == 'group':
        key = ir.col(rng.choice(['i', 's', 'b']), {'i': T_INT, 's': T_STR, 'b': T_BOOL}[rng.choice(['i'])] if False else T_INT)
        key = ir.col('j', T_INT)
        q.targets = [ir.Target(key, 'g'), ir.Target(ir.agg('count', [], T_INT), 'n'), ir.Target(ir.agg('sum', [ir.col('i', T_INT)], T_INT), 's_')]
        q.group_by = [ir.Key('expr', ir.col('j', T_INT))]
    if shape == 'order' or rng.random() < 0.3:
        if shape != 'group':
            q.order_by = [ir.Key('expr', ir.col(rng.choice(['j', 'i']), T_INT), rng.choice([None, True])), ir.Key('index', 1)]
    text = ir.to_text(q, _LIT)
    route = 'text' if rng.random() < 0.15 else 'ast'
    case = {'replay': ['in', n], 'statement': text, 'route': route, 't_columns': t.columns, 't_rows': show_rows(t.rows, 30), 'u_rows': show_rows(u.rows, 30)}
    mon.reset()
    mon.enabled = True
    try:
        try:
            names, dtypes, rows = engine.run(conn, ir.to_text(q) if route == 'text' else ir.to_ast(q))
        finally:
            mon.enabled = False
    except EXC_BOTH:
        ctx.count('excluded.definition_raises')
        return
    except Exception as exc:  # noqa: BLE001
        ctx.case((text, gen.table_digest(t), gen.table_digest(u)), True)
        ctx.violation(f'c08.in_subquery_raised.{monitors.classify_exception(exc)}', f'{text}: {type(exc).__name__}: {exc}', case)
        return
    try:
        _, _, mrows = model.run_query(q, tables)
        _, _, inner_rows = model.run_query(sub, tables)
    except (model.ModelError, *EXC_BOTH):
        ctx.count('skipped.model_domain')
        return
    ctx.case((text, gen.table_digest(t), gen.table_digest(u), route), len(t.rows) >= 1)
    ctx.count(f'obs.in_cases.{shape}')
    if not inner_rows:
        ctx.count('obs.in_empty_subquery')
    if len(ctx.samples) < 6 and len(ctx.samples) >= 3 and rows:
        ctx.sample({'statement': text, 'subquery_rows': show_rows(inner_rows, 4), 'rows': show_rows(rows, 3)})
    if not same_rows(rows, mrows):
        d = first_row_diff(rows, mrows)
        ctx.violation('c08.in_subquery_vs_membership', f'{text}: row {d[0]} engine={show(d[1])} expected={show(d[2])}', case,
                      {'engine': show_rows(rows, 30), 'expected': show_rows(mrows, 30)})


PERIODS = ['', 'OPEN ON 2020-01-01', 'CLOSE ON 2020-07-01', 'OPEN ON 2019-07-01 CLOSE ON 2020-07-01', 'CLEAR', 'OPEN ON 2020-01-01 CLEAR', 'CLOSE',
           'OPEN ON 2019-03-01 CLOSE ON 2021-01-01 CLEAR']
FILTERS = ['', 'year >= 2020', 'flag = "*"', 'NOT has_account("Broker")']
INNERS = [('account', 'SELECT DISTINCT account {frm} WHERE number > {n}'), ('account', 'SELECT account {frm} WHERE currency != "USD"'),
          ('year', 'SELECT year {frm} WHERE number > {n} AND account ~ "Expenses"'), ('currency', 'SELECT DISTINCT currency {frm} WHERE cost_number IS NOT NULL'),
          ('account', 'SELECT account {frm} GROUP BY account HAVING count(*) > 2'), ('date', 'SELECT max(date) AS d {frm} GROUP BY account')]


def run_ledger_case(ctx, rng, n, mon):
    """Ledger statements whose period clauses (OPEN / CLOSE / CLEAR) and filter expressions differ between the enclosing
    statement and its IN sub-select / FROM sub-query: the sub-query evaluates exactly as it does on its own."""
    from .. import ledgers
    led = ledgers.gen_ledger(rng, ntxn=rng.randint(6, ctx.pick(14, 30)))
    conn = engine.connection(ledger=led.loaded)

    def frm(period, filt):
        body = ' '.join(x for x in (filt, period) if x)
        return f'FROM {body}' if body else ''
    for _ in range(ctx.pick(3, 6)):
        col, inner_t = rng.choice(INNERS)
        # (a sub-select without any FROM clause reads whatever table the enclosing statement reads, period view included: it has
        # no meaning "on its own", so the sub-selects here always carry a FROM clause)
        inner = inner_t.format(frm=frm(rng.choice(PERIODS), rng.choice(FILTERS)) or 'FROM year > 1000', n=rng.choice([0, 50, 500]))
        outer_from = frm(rng.choice(PERIODS), rng.choice(FILTERS))
        neg = rng.random() < 0.3
        op = 'NOT IN' if neg else 'IN'
        case = {'replay': ['ledger', n], 'ledger': led.text}
        try:
            _, _, vals = engine.run(conn, inner)
            vals = [r[0] for r in vals]
            _, _, base = engine.run(conn, f'SELECT date, account, number, currency, year, {col} AS probe {outer_from}')
            text_w = f'SELECT date, account, number, currency, year, {col} AS probe {outer_from} WHERE {col} {op} ({inner})'
            _, _, in_where = engine.run(conn, text_w)
            text_t = f'SELECT date, account, {col} {op} ({inner}) AS m {outer_from}'
            _, _, in_target = engine.run(conn, text_t)
            text_a = f'SELECT account, count(*) AS c, sum(number) AS s {outer_from} WHERE {col} {op} ({inner}) GROUP BY account'
            _, _, in_agg = engine.run(conn, text_a)
        except Exception as exc:  # noqa: BLE001
            ctx.violation(f'c08.ledger_subquery_raised.{monitors.classify_exception(exc)}', f'{inner} inside {outer_from!r}: {type(exc).__name__}: {exc}', case)
            return

        def member(v):
            # as for the harness-table cases: a NULL operand or an empty sub-query result gives NULL, else plain membership
            if v is None or not vals:
                return None
            hit = any(v == x for x in vals)
            return (not hit) if neg else hit
        ctx.count('obs.ledger_period_subqueries')
        ctx.count('obs.ledger_period_subquery_values', len(vals))
        ctx.case(('ledger', led.text, text_w), len(vals) >= 1 and len(base) >= 2)
        exp_w = [tuple(r) for r in base if member(r[5]) is True]
        if [tuple(r) for r in in_where] != exp_w:
            ctx.violation('c08.ledger_in_subquery_vs_membership',
                          f'{text_w}: {len(in_where)} rows; filtering the rows of the enclosing statement by membership in the sub-query\'s own result ({show(vals[:6])}...) gives {len(exp_w)}',
                          dict(case, statement=text_w, subquery=inner))
            return
        exp_t = [member(r[5]) for r in base]
        got_t = [r[2] for r in in_target]
        if got_t != exp_t:
            k = next(i for i, (a, b) in enumerate(zip(got_t + [None], exp_t + [None])) if a != b)
            ctx.violation('c08.ledger_in_subquery_vs_membership', f'{text_t}: row {k} is {got_t[k] if k < len(got_t) else None}, membership in the sub-query\'s own result gives {exp_t[k] if k < len(exp_t) else None}',
                          dict(case, statement=text_t, subquery=inner))
            return
        groups = {}
        for r in exp_w:
            g = groups.setdefault(r[1], [0, 0])
            g[0] += 1
            g[1] += r[2]
        if [(r[0], r[1], r[2]) for r in in_agg] != [(a, c, s_) for a, (c, s_) in groups.items()]:
            ctx.violation('c08.ledger_in_subquery_vs_membership', f'{text_a}: groups differ from grouping the member rows', dict(case, statement=text_a, subquery=inner))
            return
        # SELECT * over a sub-query: its columns and rows unchanged, whatever their datatypes (metadata dicts, sets, inventories)
        inner_w = rng.choice(['SELECT date, meta, account FROM #postings', 'SELECT date, meta, comment FROM #notes', 'SELECT entry.meta AS em, account, tags, position FROM #postings',
                              'SELECT account, sum(position) AS s, first(meta) AS m GROUP BY account', 'SELECT name, meta FROM #commodities'])
        try:
            ci = conn.execute(inner_w)
            di, ri = [(d.name, d.datatype) for d in ci.description], ci.fetchall()
            for outer_w in (f'SELECT * FROM ({inner_w})', f'SELECT * FROM (SELECT * FROM ({inner_w}))'):
                co = conn.execute(outer_w)
                do, ro = [(d.name, d.datatype) for d in co.description], co.fetchall()
                ctx.count('obs.ledger_star_over_subquery')
                if do != di or not same_rows(ro, ri):
                    ctx.violation('c08.star_over_subquery', f'{outer_w}: columns {[n for n, _ in do]} ({len(ro)} rows); the sub-query itself gives {[n for n, _ in di]} ({len(ri)} rows)', dict(case, statement=outer_w))
                    return
        except Exception as exc:  # noqa: BLE001
            ctx.violation(f'c08.ledger_subquery_raised.{monitors.classify_exception(exc)}', f'SELECT * FROM ({inner_w}): {type(exc).__name__}: {exc}', case)
            return
        # FROM (sub-query with its own period) = the same statement over the sub-query's own rows
        sub = f'SELECT account AS a, number AS x, year AS y {frm(rng.choice(PERIODS), rng.choice(FILTERS))}'
        text_f = f'SELECT a, sum(x) AS s, count(*) AS c FROM ({sub}) WHERE y >= 2019 GROUP BY a'
        try:
            _, _, srows = engine.run(conn, sub)
            _, _, frows = engine.run(conn, text_f)
        except Exception as exc:  # noqa: BLE001
            ctx.violation(f'c08.ledger_subquery_raised.{monitors.classify_exception(exc)}', f'{text_f}: {type(exc).__name__}: {exc}', case)
            return
        groups = {}
        for a, x, y in srows:
            if y is not None and y >= 2019:
                g = groups.setdefault(a, [0, 0])
                g[0] += x
                g[1] += 1
        ctx.count('obs.ledger_period_from_subqueries')
        if [tuple(r) for r in frows] != [(a, s_, c) for a, (s_, c) in groups.items()]:
            ctx.violation('c08.ledger_from_subquery_vs_materialised', f'{text_f}: differs from grouping the sub-query\'s own rows', dict(case, statement=text_f))
            return


def run_same_text_case(ctx, rng, n, mon):
    """Two IN sub-selects with the very same text in one statement that do not mean the same thing: positional placeholders
    bound to different values, or sub-selects without a FROM clause at different nesting depths (each reads the table of
    its own enclosing SELECT). Oracle: the reference model."""
    from ..ir import T_INT as I
    t = gen.gen_table(rng, 't', max_rows=ctx.pick(8, 20))
    tables = {'t': t}
    conn = engine.connection([t])
    col = rng.choice(['i', 'j'])
    other = 'j' if col == 'i' else 'i'

    def sub(bound):
        cond = ir.bin_(rng_op, ir.col(other, I), bound, T_BOOL)
        return ir.subq(ir.Query(targets=[ir.Target(ir.col(col, I))], table=sub_table, where=cond))
    rng_op = rng.choice(['gt', 'lt', 'ne'])
    kind = rng.choice(['params', 'params', 'depth'])
    if kind == 'params':
        sub_table = rng.choice(['t', None])
        v1, v2 = rng.sample([0, 1, 2, 3, 7, -1], 2)
        a = ir.bin_('in', ir.col(col, I), sub(ir.param(v1, type=I)), T_BOOL)
        b = ir.bin_(rng.choice(['in', 'notin']), ir.col(col, I), sub(ir.param(v2, type=I)), T_BOOL)
        if rng.random() < 0.5:
            q = ir.Query(targets=[ir.Target(ir.col('k', I)), ir.Target(a, 'a'), ir.Target(b, 'b')], table='t')
        else:
            q = ir.Query(targets=[ir.Target(ir.col('k', I))], table='t', where=ir.or_(a, b) if rng.random() < 0.5 else ir.and_(a, b))
    else:
        sub_table = None
        v = rng.choice([0, 1, 2])
        inner = ir.Query(targets=[ir.Target(ir.col('k', I)), ir.Target(ir.col('i', I)), ir.Target(ir.col('j', I))], table='t',
                         where=ir.and_(ir.bin_('in', ir.col(col, I), sub(ir.lit(v, I)), T_BOOL), ir.bin_('lt', ir.col('k', I), ir.lit(rng.choice([3, 5, 8]), I), T_BOOL)))
        q = ir.Query(targets=[ir.Target(ir.col('k', I))], subquery=inner, where=ir.bin_(rng.choice(['in', 'notin']), ir.col(col, I), sub(ir.lit(v, I)), T_BOOL))
    text = ir.to_text(q)
    params = [p.value for p in q.params()] or None
    case = {'replay': ['same-text', n], 'statement': text, 'params': repr(params), 'columns': t.columns, 'rows': show_rows(t.rows, 40)}
    try:
        _, _, rows = engine.run(conn, text, params)
    except Exception as exc:  # noqa: BLE001
        ctx.violation(f'c08.in_subquery_raised.{monitors.classify_exception(exc)}', f'{text} {params}: {type(exc).__name__}: {exc}', case)
        return
    try:
        _, _, mrows = model.run_query(q, tables)
    except Exception:  # noqa: BLE001
        ctx.count('skipped.model_raises')
        return
    ctx.count(f'obs.same_text_subqueries.{kind}')
    ctx.case((text, repr(params), gen.table_digest(t)), len(t.rows) >= 2)
    if not same_rows(rows, mrows):
        d = first_row_diff(rows, mrows)
        ctx.violation('c08.same_text_subqueries', f'{text} {params}: row {d[0]} engine={show(d[1])} model={show(d[2])} (two sub-selects with the same text, different meaning)', case)


CURSOR_GOOD = [
    'SELECT * FROM (SELECT account, number WHERE number > 0)',
    'SELECT a, sum(n) AS s FROM (SELECT account AS a, number AS n) GROUP BY a',
    'SELECT account, number WHERE account IN (SELECT account FROM #accounts WHERE account ~ "Assets")',
    'SELECT date, account, number',
    'SELECT account, count(*) AS c GROUP BY account',
    'SELECT account WHERE number IN (SELECT number WHERE number > 100)',
    'SELECT * FROM (SELECT account AS a FROM #accounts)',
    'SELECT a FROM (SELECT account AS a, number AS n FROM CLOSE ON 2020-06-01) WHERE n > 0',
]
CURSOR_BAD = [
    'SELECT nosuch FROM (SELECT account, number)',
    'SELECT account WHERE account IN (SELECT nosuch FROM #accounts)',
    'SELECT x FROM (SELECT account FROM #accounts)',
    'SELECT account FROM CLOSE ON 2020-01-01 WHERE nosuch > 1',
    'SELECT account WHERE account IN (SELECT account, number FROM #postings)',
    'SELECT account FROM #accounts WHERE nosuch',
    'SELECT a FROM (SELECT account AS a FROM OPEN ON 2020-01-01 CLEAR) WHERE b',
]


def run_cursor_case(ctx, rng, n, mon):
    """One cursor (and one connection) used for a series of statements with sub-queries, some of which are refused after
    their FROM clause has been compiled: every accepted statement gives what it gives on a new connection."""
    from .. import ledgers
    led = ledgers.gen_ledger(rng, ntxn=rng.randint(5, 12))
    conn = engine.connection(ledger=led.loaded)
    cur = conn.cursor()
    history = []
    for _ in range(rng.randint(3, 8)):
        bad = rng.random() < 0.4
        text = rng.choice(CURSOR_BAD if bad else CURSOR_GOOD)
        history.append(text)
        via = cur if rng.random() < 0.7 else conn
        try:
            c = via.execute(text)
            got = ([d.name for d in c.description], c.fetchall())
            err = None
        except Exception as exc:  # noqa: BLE001
            got, err = None, exc
        try:
            c2 = engine.connection(ledger=led.loaded).execute(text)
            exp = ([d.name for d in c2.description], c2.fetchall())
            err2 = None
        except Exception as exc:  # noqa: BLE001
            exp, err2 = None, exc
        ctx.count('obs.cursor_history_statements')
        if bad:
            ctx.count('obs.cursor_history_rejections')
        ctx.case(('cursor', led.text, tuple(history)), len(history) >= 2)
        case = {'replay': ['cursor', n], 'history': list(history), 'ledger': led.text}
        if (err is None) != (err2 is None) or (err is not None and type(err) is not type(err2)):
            ctx.violation('c08.history_dependence', f'{text!r} after {history[:-1]}: on the used cursor {err!r}, on a new connection {err2!r}', case)
            return
        if err is None and (got[0] != exp[0] or not same_rows(got[1], exp[1])):
            ctx.violation('c08.history_dependence', f'{text!r} after {history[:-1]} on a used cursor: {len(got[1])} rows {got[0]}; on a new connection {len(exp[1])} rows {exp[0]}', case)
            return


DESCRIPTION_INNERS = [
    'SELECT account AS a, NULL AS n, number AS x FROM #postings', 'SELECT coalesce(NULL, NULL) AS n, account FROM #postings',
    'SELECT DISTINCT account, NULL AS n FROM #postings ORDER BY account LIMIT 5', 'SELECT date, payee, tags, meta, entry FROM #postings',
    'SELECT position, units(position) AS u, cost(position) AS c, balance FROM #postings', 'SELECT account, sum(position) AS s, count(*) AS n, NULL AS z FROM #postings GROUP BY account',
    'SELECT 1 AS i, 1.5 AS d, "s" AS s, 2020-01-01 AS dt, TRUE AS b, NULL AS z', 'SELECT meta("note") AS o, number > 0 AS b FROM #postings',
]


def run_description_case(ctx, rng, n, mon):
    """SELECT * FROM (q), at one and two levels, describes q's columns as q does: names AND datatypes (NULL-typed, object-typed and
    structured ones included), and delivers q's rows."""
    led = ledgers.gen_ledger(rng, ntxn=rng.randint(3, 8), with_queries=False)
    conn = engine.connection(ledger=led.loaded)
    for inner in DESCRIPTION_INNERS:
        case = {'replay': ['description', n], 'statement': inner, 'ledger': led.text}
        try:
            cur = conn.execute(inner)
            desc0, rows0 = [(d.name, d.datatype) for d in cur.description], cur.fetchall()
        except Exception as exc:  # noqa: BLE001
            ctx.count('skipped.inner_failed')
            continue
        for text in (f'SELECT * FROM ({inner})', f'SELECT * FROM (SELECT * FROM ({inner}))'):
            try:
                cur = conn.execute(text)
                desc1, rows1 = [(d.name, d.datatype) for d in cur.description], cur.fetchall()
            except Exception as exc:  # noqa: BLE001
                ctx.violation(f'c08.wildcard_over_subquery_failed.{monitors.classify_exception(exc)}', f'{text}: {type(exc).__name__}: {exc}', dict(case, statement=text))
                continue
            ctx.count('obs.description_cases')
            ctx.case(('description', text, n), True)
            if desc1 != desc0:
                ctx.violation('c08.wildcard_over_subquery_description', f'{text}: described as {[(a, getattr(b, "__name__", b)) for a, b in desc1]}; the sub-query itself as '
                              f'{[(a, getattr(b, "__name__", b)) for a, b in desc0]}', dict(case, statement=text))
            elif not same_rows(rows1, rows0):
                ctx.violation('c08.wildcard_over_subquery_rows', f'{text}: rows differ from the rows of the sub-query itself', dict(case, statement=text))


def run(ctx):
    mon = monitors.install()
    # the parts are interleaved: under a time cut-off every part has had its share
    parts = [('description', run_description_case, ctx.pick(2, 40)), ('cursor', run_cursor_case, ctx.pick(12, 300)), ('same-text', run_same_text_case, ctx.pick(60, 1500)), ('ledger', run_ledger_case, ctx.pick(12, 200)),
             ('from', run_from_case, ctx.pick(500, 9000)), ('in', run_in_case, ctx.pick(500, 9000))]
    top = max(n for _, _, n in parts)
    for n in range(top):
        if ctx.out_of_time():
            break
        for name, fn, count in parts:
            # spread the smaller parts evenly over the range of the largest
            step = top // count
            if n % step == 0 and n // step < count:
                fn(ctx, ctx.rng(name, n // step), n // step, mon)


def replay(ctx, case):
    mon = monitors.install()
    part, n = case['replay']
    {'description': run_description_case, 'from': run_from_case, 'in': run_in_case, 'ledger': run_ledger_case, 'same-text': run_same_text_case, 'cursor': run_cursor_case}[part](ctx, ctx.rng(part, n), n, mon)


def finalize(merged):
    c = merged['counters']
    reasons = []
    if sum(v for k, v in c.items() if k.startswith('obs.from_cases')) == 0:
        reasons.append('no FROM-sub-query case compared')
    if sum(v for k, v in c.items() if k.startswith('obs.in_cases')) == 0:
        reasons.append('no IN-sub-query case compared')
    if c.get('obs.ledger_period_subqueries', 0) == 0 or c.get('obs.ledger_period_from_subqueries', 0) == 0:
        reasons.append('no ledger sub-query with period clauses compared')
    if c.get('obs.same_text_subqueries.params', 0) == 0 or c.get('obs.same_text_subqueries.depth', 0) == 0:
        reasons.append('no statement with two same-text sub-selects compared')
    if c.get('obs.cursor_history_rejections', 0) == 0:
        reasons.append('no refused statement inside a cursor history')
    if c.get('obs.star_cases', 0) == 0:
        reasons.append('no SELECT * FROM (q) case')
    if c.get('obs.in_subquery_with_limit', 0) == 0:
        reasons.append('no IN case with LIMIT inside the sub-query')
    if c.get('obs.in_empty_subquery', 0) == 0:
        reasons.append('no IN case with an empty sub-query result')
    return reasons

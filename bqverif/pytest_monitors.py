"""pytest plug-in: run the repository's own test-suite under the harness monitors.

    pytest -p bqverif.pytest_monitors ...   (with /verif on PYTHONPATH)

Test outcomes are ignored; what counts is what the monitors observe while the tests
drive the engine: node values that do not conform to the node's dtype (M2), aggregator
protocol violations (M3), postings added twice to a running balance (M4).
The observations are written to $BQVERIF_PYTEST_REPORT as JSON.
"""
import json
import os

from . import monitors

_report = {'tests': 0, 'node_evaluations': 0, 'violations': []}


def pytest_configure(config):
    mon = monitors.install()
    mon.enabled = True
    mon.trace_aggs = True


def pytest_runtest_setup(item):
    monitors.MON.reset()


def pytest_runtest_teardown(item, nextitem):
    mon = monitors.MON
    _report['tests'] += 1
    for v in mon.dtype_violations:
        _report['violations'].append({'test': item.nodeid, 'kind': 'node_dtype', 'detail': list(v)})
    for v in mon.agg_violations:
        _report['violations'].append({'test': item.nodeid, 'kind': 'aggregator_protocol', 'detail': v})
    for v in mon.balance_violations:
        _report['violations'].append({'test': item.nodeid, 'kind': 'balance', 'detail': v})


def pytest_sessionfinish(session, exitstatus):
    _report['node_evaluations'] = monitors.MON.node_evals
    path = os.environ.get('BQVERIF_PYTEST_REPORT')
    if path:
        with open(path, 'w') as f:
            json.dump(_report, f)

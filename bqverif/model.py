"""Reference models R1 (expression evaluator) and R2 (query model).

Written from the property statements; shares no code with beanquery.
Tables are given as ModelTable(name, columns=[(name, type)], rows=[tuple]).
"""
import datetime
import functools
import re
import calendar
from decimal import Decimal, InvalidOperation

from . import ir
from .ir import T_INT, T_DEC, T_STR, T_DATE, T_BOOL, T_OBJ, T_NULL


class ModelError(Exception):
    """The model cannot evaluate this case (outside its domain)."""


class ModelTable:
    def __init__(self, name, columns, rows, wildcard=None):
        self.name = name
        self.columns = list(columns)          # [(name, type)]
        self.rows = [tuple(r) for r in rows]
        self.index = {n: i for i, (n, _) in enumerate(self.columns)}
        self.wildcard = wildcard or [n for n, _ in self.columns]

    def coltype(self, name):
        return self.columns[self.index[name]][1]


# ---------------------------------------------------------------------------
# R1: expressions

def cast(value, target):
    """Type casts: the converted value or NULL, never an error."""
    if value is None:
        return None
    if target == T_INT:
        # untyped operands met with an int are promoted to decimal
        target = T_DEC
    if target == T_DEC:
        try:
            return Decimal(value)
        except (ValueError, TypeError, InvalidOperation):
            return None
    if target == T_STR:
        if value is True:
            return 'TRUE'
        if value is False:
            return 'FALSE'
        return str(value)
    if target == T_DATE:
        if isinstance(value, datetime.date):
            return value
        if isinstance(value, str):
            m = re.fullmatch(r'(\d+)-(\d+)-(\d+)', value)
            if m is None:
                return None
            y, mo, d = m.groups()
            # strptime('%Y-%m-%d'): 4-digit year, 1-2 digit month/day
            if len(y) != 4 or len(mo) > 2 or len(d) > 2:
                return None
            try:
                return datetime.date(int(y), int(mo), int(d))
            except ValueError:
                return None
        return None
    if target == T_BOOL:
        return bool(value)
    raise ModelError(f'no cast to {target}')


def _cmp(op, l, r):
    if op == 'eq':
        return l == r
    if op == 'ne':
        return l != r
    if op == 'gt':
        return l > r
    if op == 'ge':
        return l >= r
    if op == 'lt':
        return l < r
    if op == 'le':
        return l <= r
    raise ModelError(op)


def _first_of_unit(unit, d):
    if unit == 'week':
        return d - datetime.timedelta(days=d.weekday())
    if unit == 'month':
        return d.replace(day=1)
    if unit == 'quarter':
        return datetime.date(d.year, 3 * ((d.month - 1) // 3) + 1, 1)
    if unit == 'year':
        return datetime.date(d.year, 1, 1)
    if unit == 'decade':
        return datetime.date(d.year // 10 * 10, 1, 1)
    if unit == 'century':
        return datetime.date((d.year - 1) // 100 * 100 + 1, 1, 1)
    if unit == 'millennium':
        return datetime.date((d.year - 1) // 1000 * 1000 + 1, 1, 1)
    return None


def _date_part(unit, d):
    if unit in ('weekday', 'dow'):
        return d.weekday()
    if unit in ('isoweekday', 'isodow'):
        return d.isoweekday()
    if unit == 'week':
        return d.isocalendar()[1]
    if unit == 'month':
        return d.month
    if unit == 'quarter':
        return (d.month + 2) // 3
    if unit == 'year':
        return d.year
    if unit == 'isoyear':
        return d.isocalendar()[0]
    if unit == 'decade':
        return d.year // 10
    if unit == 'century':
        return (d.year + 99) // 100
    if unit == 'millennium':
        return (d.year + 999) // 1000
    if unit == 'epoch':
        return (d.toordinal() - datetime.date(1970, 1, 1).toordinal()) * 86400
    return None


def _maxwidth(s, n):
    import textwrap
    return textwrap.shorten(s, width=n)


def _account_parts(a):
    return a.split(':')


FUNCS = {
    # casts
    'int': lambda x: _int(x),
    'decimal': lambda x: cast(x, T_DEC),
    'str': lambda x: cast(x, T_STR),
    'bool': lambda x: bool(x),
    'date': lambda *a: cast(a[0], T_DATE) if len(a) == 1 else _ymd(*a),
    # numbers
    'abs': lambda x: -x if x < 0 else +x if isinstance(x, Decimal) else x,
    'neg': lambda x: -x,
    'round': lambda x, n=0: round(x, n),
    'safediv': lambda x, y: Decimal(0) if y == 0 else x / y,
    # strings
    'length': lambda x: len(x),
    'upper': lambda s: s.upper(),
    'lower': lambda s: s.lower(),
    'substr': lambda s, a, b: s[a:b],
    'maxwidth': _maxwidth,
    'repr': lambda x: repr(x),
    # dates
    'year': lambda d: d.year,
    'month': lambda d: d.month,
    'day': lambda d: d.day,
    'yearmonth': lambda d: d.replace(day=1),
    'quarter': lambda d: '%04d-Q%d' % (d.year, (d.month + 2) // 3),
    'weekday': lambda d: ['Mon', 'Tue', 'Wed', 'Thu', 'Fri', 'Sat', 'Sun'][d.weekday()],
    'date_add': lambda d, n: datetime.date.fromordinal(d.toordinal() + n),
    'date_diff': lambda a, b: a.toordinal() - b.toordinal(),
    'date_trunc': _first_of_unit,
    'date_part': _date_part,
    # accounts
    'root': lambda a, n=1: ':'.join(_account_parts(a)[:n]),
    'parent': lambda a: ':'.join(_account_parts(a)[:-1]),
    'leaf': lambda a: _account_parts(a)[-1],
}


def _int(x):
    try:
        return int(x)
    except (ValueError, TypeError):
        return None


def _ymd(y, m, d):
    try:
        return datetime.date(y, m, d)
    except ValueError:
        return None


class Env:
    """Evaluation environment: tables (for sub-queries), hooks for aggregates."""

    def __init__(self, tables=None, table=None):
        self.tables = tables or {}
        self.subq_cache = {}
        self.table = table          # the table of the enclosing statement: a FROM-less sub-select reads it


def ev(e, row, env, group=None):
    """Evaluate expression e on a row (dict name -> value). group: list of rows
    (dicts) when evaluating an aggregate target over a group."""
    k = e.kind
    if k == 'col':
        return row[e.name]
    if k in ('lit', 'param'):
        return e.value
    if k == 'un':
        x = ev(e.args[0], row, env, group)
        if e.op == 'not':
            return not x
        if e.op == 'isnull':
            return x is None
        if e.op == 'isnotnull':
            return x is not None
        if e.op == 'neg':
            return None if x is None else -x
        raise ModelError(e.op)
    if k == 'bin':
        a, b = e.args
        l = ev(a, row, env, group)
        r = ev(b, row, env, group)
        op = e.op
        if op not in ('in', 'notin'):
            # untyped operand meets a typed one: implicit cast to that type
            if a.type == T_OBJ and b.type != T_OBJ:
                l = cast(l, b.type)
            elif b.type == T_OBJ and a.type != T_OBJ:
                r = cast(r, a.type)
        if l is None or r is None:
            return None
        if op == 'add':
            if isinstance(l, datetime.date) and isinstance(r, int):
                return datetime.date.fromordinal(l.toordinal() + r)
            if isinstance(l, int) and isinstance(r, datetime.date):
                return datetime.date.fromordinal(r.toordinal() + l)
            return l + r
        if op == 'sub':
            if isinstance(l, datetime.date) and isinstance(r, datetime.date):
                return l.toordinal() - r.toordinal()
            if isinstance(l, datetime.date) and isinstance(r, int):
                return datetime.date.fromordinal(l.toordinal() - r)
            return l - r
        if op == 'mul':
            return l * r
        if op == 'div':
            if r == 0:
                return None
            if isinstance(l, int) and isinstance(r, int):
                return Decimal(l) / Decimal(r)
            return l / r
        if op == 'mod':
            if r == 0:
                return None
            return l % r
        if op in ('eq', 'ne', 'gt', 'ge', 'lt', 'le'):
            return _cmp(op, l, r)
        if op == 'match':
            return re.search(r, l, re.IGNORECASE) is not None
        if op == 'notmatch':
            return re.search(r, l, re.IGNORECASE) is None
        if op == 'in':
            return any(l == x for x in r) if not isinstance(r, (set, frozenset, dict)) else (l in r)
        if op == 'notin':
            return not (any(l == x for x in r) if not isinstance(r, (set, frozenset, dict)) else (l in r))
        raise ModelError(op)
    if k == 'between':
        x, lo, hi = (ev(a, row, env, group) for a in e.args)
        if x is None or lo is None or hi is None:
            return None
        return lo <= x and x <= hi
    if k == 'and':
        for a in e.args:
            v = ev(a, row, env, group)
            if v is None:
                return None
            if not v:
                return False
        return True
    if k == 'or':
        seen_null = False
        for a in e.args:
            v = ev(a, row, env, group)
            if v is None:
                seen_null = True
            elif v:
                return True
        return None if seen_null else False
    if k == 'func':
        if e.name == 'coalesce':
            for a in e.args:
                v = ev(a, row, env, group)
                if v is not None:
                    return v
            return None
        args = [ev(a, row, env, group) for a in e.args]
        if any(a is None for a in args):
            return None
        f = FUNCS.get(e.name)
        if f is None:
            raise ModelError(f'function {e.name}')
        return f(*args)
    if k == 'agg':
        if group is None:
            raise ModelError('aggregate outside aggregation')
        return fold(e, group, env)
    if k == 'subq':
        key = id(e)
        if key not in env.subq_cache:
            names, types, rows = run_query(e.q, env.tables, default_table=env.table)
            vals = [r[0] for r in rows]
            env.subq_cache[key] = vals if vals else None
        return env.subq_cache[key]
    raise ModelError(k)


def fold(e, group, env):
    """Aggregate e over the rows (dicts) of a group, in source order."""
    name = e.name
    if name == 'count' and e.value == '*':
        return len(group)
    arg = e.args[0]
    vals = [ev(arg, r, env) for r in group]
    if name == 'count':
        return sum(1 for v in vals if v is not None)
    if name == 'sum':
        if arg.type == T_INT or arg.type == T_BOOL:
            acc = 0
        elif arg.type == T_DEC:
            acc = Decimal()
        else:
            raise ModelError(f'sum over {arg.type}')
        for v in vals:
            if v is not None:
                acc = acc + v
        return acc
    if name == 'min':
        out = None
        for v in vals:
            if v is not None and (out is None or v < out):
                out = v
        return out
    if name == 'max':
        out = None
        for v in vals:
            if v is not None and (out is None or v > out):
                out = v
        return out
    if name == 'first':
        for v in vals:
            if v is not None:
                return v
        return None
    if name == 'last':
        return vals[-1] if vals else None
    raise ModelError(name)


# ---------------------------------------------------------------------------
# R2: queries

class _Desc:
    """Wrapper reversing the order of a key component."""
    __slots__ = ('v',)

    def __init__(self, v):
        self.v = v


def _cmp_key(a, b):
    # NULL smallest
    if a is None and b is None:
        return 0
    if a is None:
        return -1
    if b is None:
        return 1
    if a < b:
        return -1
    if b < a:
        return 1
    return 0


def sort_rows(rows, keyfuncs_desc):
    """Stable lexicographic sort; keyfuncs_desc = [(keyfunc(row)->value, desc)]."""
    def compare(ra, rb):
        for f, desc in keyfuncs_desc:
            c = _cmp_key(f(ra), f(rb))
            if c:
                return -c if desc else c
        return 0
    return sorted(rows, key=functools.cmp_to_key(compare))


def resolve_table(q, tables, default_table=None):
    if q.subquery is not None:
        names, types, rows = run_query(q.subquery, tables)
        if len(set(names)) != len(names):
            raise ModelError('sub-query with duplicate output names')
        return ModelTable('<subquery>', list(zip(names, types)), rows)
    if q.table is not None:
        return tables[q.table]
    if default_table is not None:
        return default_table
    return tables['postings'] if 'postings' in tables else tables['']


def run_query(q, tables, default_table=None, eager=False):
    """-> (names, types, rows). rows are tuples of the visible targets. eager: evaluate the targets and ordering keys of
    every group, those that HAVING removes included (as an engine may do): used to find arithmetic-domain errors."""
    table = resolve_table(q, tables, default_table)
    env = Env(tables, table)
    if q.star:
        targets = [ir.Target(ir.col(n, table.coltype(n))) for n in table.wildcard]
    else:
        targets = q.targets
    names = [ir.target_name(t) for t in targets]
    types = [t.expr.type for t in targets]
    src = [dict(zip([n for n, _ in table.columns], r)) for r in table.rows]

    # FROM expression AND WHERE; only TRUE passes
    conds = []
    if q.from_ is not None and q.from_.expr is not None:
        conds.append(q.from_.expr)
    if q.where is not None:
        conds.append(q.where)
    selected = []
    for r in src:
        ok = True
        for c in conds:
            v = ev(c, r, env)
            if v is None or not v:
                ok = False
                break
        if ok:
            selected.append(r)

    def resolve_key(k, allow_agg):
        """-> expression for a GROUP BY / ORDER BY key."""
        if k.kind == 'index':
            return targets[k.value - 1].expr
        if k.kind == 'name':
            if k.value in names:
                # a name refers to the output of that name (last one wins in a name map
                # built left to right -> the engine keeps the last for ORDER BY, the
                # last for GROUP BY as well)
                idx = max(i for i, n in enumerate(names) if n == k.value)
                return targets[idx].expr
            return ir.col(k.value, table.coltype(k.value))
        return k.value

    aggregate = any(t.expr.has_agg() for t in targets) or bool(q.group_by)
    if not aggregate:
        rows = [([ev(t.expr, r, env) for t in targets], r, None) for r in selected]
    else:
        if q.group_by:
            key_exprs = [resolve_key(k, False) for k in q.group_by]
        else:
            key_exprs = [t.expr for t in targets if not t.expr.has_agg()]
        groups = {}
        order = []
        for r in selected:
            key = tuple(ev(e, r, env) for e in key_exprs)
            if key not in groups:
                groups[key] = []
                order.append(key)
            groups[key].append(r)
        rows = []
        for key in order:
            g = groups[key]
            first = g[0]
            if eager:
                for t in targets:
                    ev(t.expr, first, env, group=g)
                for k in q.order_by or ():
                    ev(resolve_key(k, True), first, env, group=g)
            if q.having is not None:
                hv = ev(q.having, first, env, group=g)
                if not hv:
                    continue
            vals = []
            for t in targets:
                vals.append(ev(t.expr, first, env, group=g))
            rows.append((vals, first, g))

    if q.order_by:
        specs = []
        for k in q.order_by:
            e = resolve_key(k, True)
            specs.append(((lambda e: (lambda item: ev(e, item[1], env, group=item[2])))(e), bool(k.desc)))
        rows = sort_rows(rows, specs)

    out = [tuple(v) for v, _, _ in rows]
    if q.distinct:
        seen = set()
        ded = []
        for r in out:
            if r not in seen:
                seen.add(r)
                ded.append(r)
        out = ded
    if q.limit is not None:
        out = out[:q.limit]
    if q.pivot_by:
        return pivot(q, names, types, out)
    return names, types, out


def pivot(q, names, types, rows):
    idx = []
    for k in q.pivot_by:
        if k.kind == 'index':
            idx.append(k.value - 1)
        else:
            idx.append(names.index(k.value))
    c1, c2 = idx
    others = [i for i in range(len(names)) if i not in idx]
    def nullfirst(v):
        return (v is not None, v)
    keys2 = []
    for r in rows:
        if r[c2] not in keys2:
            keys2.append(r[c2])
    keys2.sort(key=nullfirst)
    keys1 = []
    for r in rows:
        if r[c1] not in keys1:
            keys1.append(r[c1])
    keys1.sort(key=nullfirst)
    onames = [f'{names[c1]}/{names[c2]}']
    otypes = [types[c1]]
    for k2 in keys2:
        for i in others:
            onames.append(f'{k2}/{names[i]}' if len(others) > 1 else f'{k2}')
            otypes.append(types[i])
    out = []
    for k1 in keys1:
        row = [k1]
        for k2 in keys2:
            match = [r for r in rows if r[c1] == k1 and r[c2] == k2]
            if match:
                row.extend(match[-1][i] for i in others)
            else:
                row.extend([None] * len(others))
        out.append(tuple(row))
    return onames, otypes, out


def domain_error_possible(q, tables, excs, default_table=None):
    """Does ANY sub-expression of the statement (outside aggregate calls: their arguments are looked at instead), evaluated
    eagerly on ANY row of its table, raise one of `excs`? The reference model is lazier than the engine (AND / OR / COALESCE
    stop early, targets are not evaluated for filtered rows, constants are folded at compile time): when the engine alone
    stops with an arithmetic-domain error, it is outside the property only if such an evaluation exists somewhere."""
    try:
        table = resolve_table(q, tables, default_table)
    except Exception:  # noqa: BLE001
        return True
    env = Env(tables, table)
    src = [dict(zip([n for n, _ in table.columns], r)) for r in table.rows] or [dict((n, None) for n, _ in table.columns)]
    nodes = []
    for e in q.exprs():
        for n in e.walk():
            if n.kind == 'subq':
                if domain_error_possible(n.q, tables, excs, default_table=table):
                    return True
            elif n.kind not in ('col', 'lit', 'param', 'agg') and not n.has_agg():
                nodes.append(n)
    if q.subquery is not None and domain_error_possible(q.subquery, tables, excs):
        return True
    for n in nodes:
        for r in src:
            try:
                ev(n, r, env)
            except excs:
                return True
            except Exception:  # noqa: BLE001
                pass
    # expressions over aggregates: every group, those removed by HAVING included
    try:
        run_query(q, tables, default_table, eager=True)
    except excs:
        return True
    except Exception:  # noqa: BLE001
        pass
    return False

"""Reference for the period view of a ledger: the Beancount summarization operations applied in the harness.

OPEN ON d   = beancount.ops.summarize.open_opt(entries, d, options)    (balances before d become opening balances,
                                                                        income/expenses before d go to previous earnings)
CLOSE [ON d] = summarize.close_opt(entries, d | None, options)         (entries from d on are dropped, conversions added)
CLEAR        = summarize.clear_opt(entries, None, options)             (income/expenses transferred to current earnings)
applied in that order. This is the definition the property refers to ("present the ledger as a period report"); the
engine is required to present exactly these entries.
"""
import datetime


def reference_view(entries, options, open_=None, close=None, clear=False):
    from beancount.ops import summarize
    out = entries
    if open_ is not None:
        out, _ = summarize.open_opt(out, open_, options)
    if close is not None and close is not False:
        out, _ = summarize.close_opt(out, close if isinstance(close, datetime.date) else None, options)
    if clear:
        out, _ = summarize.clear_opt(out, None, options)
    return out


def clause_text(open_=None, close=None, clear=False, expr=None):
    parts = [expr] if expr else []
    if open_ is not None:
        parts.append(f'OPEN ON {open_}')
    if close is True:
        parts.append('CLOSE')
    elif close:
        parts.append(f'CLOSE ON {close}')
    if clear:
        parts.append('CLEAR')
    return ' '.join(parts)


def posting_rows(entries):
    """(date, flag, account, Position) of every posting of every transaction, in order."""
    from beancount.core import data
    from beancount.core.position import Position
    return [(e.date, e.flag, p.account, Position(p.units, p.cost)) for e in entries if isinstance(e, data.Transaction) for p in e.postings]

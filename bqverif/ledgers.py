"""G5 — Beancount ledger generator (text route through the real loader)."""
import datetime
from decimal import Decimal

D = Decimal

ROOTS = ['Assets', 'Liabilities', 'Equity', 'Income', 'Expenses']

ACCOUNTS = [
    'Assets:Bank:Checking', 'Assets:Bank:Savings', 'Assets:Cash', 'Assets:Broker', 'Assets:Broker:Sub:Deep:Leaf',
    'Assets:EUR', 'Liabilities:Card', 'Liabilities:Loan', 'Equity:Opening', 'Income:Salary', 'Income:Gains',
    'Income:Interest', 'Expenses:Food', 'Expenses:Food:Out', 'Expenses:Rent', 'Expenses:Fees', 'Expenses:Taxes',
]
STOCKS = ['HOOL', 'VTI']
PAYEES = ['Acme', 'Corner Shop', 'Landlord', None, 'Broker Inc', 'ACME corp', 'Consolidated Amalgamated International Hardware and Garden Supplies Ltd']
NARRATIONS = ['groceries', 'rent', 'salary', 'buy', 'sell', 'misc stuff', '', 'a very long narration ' * 5, 'Ünïcode café']
TAGS = ['trip', 'work', 'x-1']
LINKS = ['inv-1', 'doc2']

# tables whose columns are generic attribute accessors: (column, type-name) per table
GROUPABLE = {
    'transactions': [('flag', 'str'), ('payee', 'str'), ('narration', 'str')],
    'notes': [('account', 'str'), ('comment', 'str')],
    'events': [('type', 'str'), ('description', 'str')],
    'documents': [('account', 'str'), ('filename', 'str')],
    'postings': [('account', 'str'), ('currency', 'str'), ('narration', 'str'), ('flag', 'str')],
    'entries': [('type', 'str'), ('flag', 'str'), ('narration', 'str')],
}


class Ledger:
    def __init__(self, text):
        self.text = text
        self._loaded = None

    @property
    def loaded(self):
        if self._loaded is None:
            from beancount import loader
            self._loaded = loader.load_string(self.text)
        return self._loaded

    @property
    def entries(self):
        return self.loaded[0]

    @property
    def errors(self):
        return self.loaded[1]

    @property
    def options(self):
        return self.loaded[2]


def _amt(x, places=2):
    return f'{x:.{places}f}'


def _meta_lines(rng, indent, p=0.3):
    out = []
    if rng.random() < p:
        for _ in range(rng.randint(1, 3)):
            key = rng.choice(['note', 'ref', 'when', 'ok', 'amt', 'acct', 'cur', 'num', 'tag'])
            val = {
                'note': '"some text"', 'ref': '"R-%d"' % rng.randint(1, 99), 'when': '2020-05-0%d' % rng.randint(1, 9),
                'ok': rng.choice(['TRUE', 'FALSE']), 'amt': '%d.50 USD' % rng.randint(1, 9), 'acct': 'Assets:Cash',
                'cur': 'EUR', 'num': str(rng.randint(1, 100)) + rng.choice(['', '.25']), 'tag': '#trip',
            }[key]
            line = f'{indent}{key}: {val}'
            if not any(l.split(':')[0] == line.split(':')[0] for l in out):
                out.append(line)
    return out


RENAMED = {'Assets': 'Actifs', 'Liabilities': 'Passifs', 'Equity': 'Capital', 'Income': 'Revenus', 'Expenses': 'Depenses'}


def gen_ledger(rng, ntxn=10, with_queries=True, with_pad=True, start_year=2019, nyears=3, errors_ok=False, renamed_roots=False, odd_precision=True, exotic=None):
    """Generate a loadable multi-currency ledger with lots, sales, conversions, prices,
    pad/balance, notes, events, documents, commodities, metadata, tags and links."""
    lines = ['option "title" "Generated ledger"', 'option "operating_currency" "USD"', '']
    if renamed_roots:
        for k, v in RENAMED.items():
            lines.insert(2, f'option "name_{k.lower()}" "{v}"')
    open_date = datetime.date(start_year - 1, 1, 1)
    accounts = list(ACCOUNTS)
    for a in accounts:
        cur = ''
        if a == 'Assets:EUR':
            cur = ' EUR'
        elif a.startswith('Assets:Broker') and rng.random() < 0.5:
            cur = ' USD,HOOL,VTI'
        lines.append(f'{open_date} open {a}{cur}')
        lines.extend(_meta_lines(rng, '  ', 0.4))
    # an account opened twice is an error in beancount; closed accounts instead
    closed = {}
    lines.append('')
    for c in ['USD', 'EUR', 'HOOL', 'VTI', 'CAD']:
        if rng.random() < 0.8:
            lines.append(f'{open_date} commodity {c}')
            if rng.random() < 0.7:
                lines.append(f'  name: "{c} name"')
            if rng.random() < 0.4:
                lines.append(f'  asset-class: "{rng.choice(["cash", "stock"])}"')
            if rng.random() < 0.3:
                lines.append('  quote: USD')
            if rng.random() < 0.3:
                lines.append(f'  weight: {rng.randint(1, 9)}.5')
    lines.append('')

    first = datetime.date(start_year, 1, 1).toordinal()
    last = datetime.date(start_year + nyears - 1, 12, 31).toordinal()
    dates = sorted(rng.randint(first, last) for _ in range(ntxn))
    # force some equal dates
    for i in range(1, len(dates)):
        if rng.random() < 0.15:
            dates[i] = dates[i - 1]
    lots = []   # [stock, cost, date, remaining units]
    price = {'HOOL': D('100'), 'VTI': D('50')}
    for n, o in enumerate(dates):
        d = datetime.date.fromordinal(o)
        flag = rng.choice(['*', '*', '*', '!'])
        payee = rng.choice(PAYEES)
        narr = rng.choice(NARRATIONS)
        tags = ''.join(f' #{t}' for t in TAGS if rng.random() < 0.15)
        links = ''.join(f' ^{l}' for l in LINKS if rng.random() < 0.1)
        head = f'{d} {flag} ' + (f'"{payee}" ' if payee else '') + f'"{narr}"{tags}{links}'
        kind = rng.choice(['expense', 'expense', 'salary', 'buy', 'buy', 'sell', 'fx', 'multi', 'card', 'transfer'])
        post = []
        if kind == 'sell' and not lots:
            kind = 'buy'
        if kind == 'expense':
            x = D(rng.randint(1, 20000)) / 100
            acc = rng.choice(['Expenses:Food', 'Expenses:Food:Out', 'Expenses:Rent', 'Expenses:Fees'])
            post = [(acc, f'{_amt(x)} USD'), (rng.choice(['Assets:Cash', 'Assets:Bank:Checking']), f'-{_amt(x)} USD')]
            if odd_precision and rng.random() < 0.15:
                # more fractional digits than the ledger's usual two (display precision != natural precision)
                y = D(rng.randint(1, 999999)) / 10000
                post = [(acc, f'{y} USD'), (rng.choice(['Assets:Cash', 'Assets:Bank:Checking']), f'-{y} USD')]
        elif kind == 'salary':
            x = D(rng.randint(100000, 500000)) / 100
            tax = (x / 5).quantize(D('0.01'))
            post = [('Income:Salary', f'-{_amt(x)} USD'), ('Expenses:Taxes', f'{_amt(tax)} USD'), ('Assets:Bank:Checking', None)]
        elif kind == 'buy':
            s = rng.choice(STOCKS)
            units = rng.randint(1, 20)
            cost = price[s] + rng.randint(-10, 10)
            price[s] = cost
            spec = f'{cost} USD'
            r = rng.random()
            label = None
            if r < 0.3:
                spec += f', {d}'
            elif r < 0.45:
                label = f'lot{n}'
                spec += f', "{label}"'
            acc = rng.choice(['Assets:Broker', 'Assets:Broker:Sub:Deep:Leaf'])
            post = [(acc, f'{units} {s} {{{spec}}}'), ('Assets:Bank:Checking', f'-{units * cost} USD')]
            lots.append([s, cost, d, units, acc, label])
        elif kind == 'sell':
            lot = rng.choice(lots)
            s, cost, ld, remaining, acc, label = lot
            units = rng.randint(1, remaining)
            lot[3] -= units
            if lot[3] == 0:
                lots.remove(lot)
            sale = cost + rng.randint(-5, 15)
            spec = f'{cost} USD, {ld}'
            if label:
                spec += f', "{label}"'
            post = [(acc, f'-{units} {s} {{{spec}}} @ {sale} USD'), ('Assets:Bank:Checking', f'{units * sale} USD'),
                    ('Income:Gains', None)]
        elif kind == 'fx':
            eur = D(rng.randint(100, 90000)) / 100
            rate = D('1.1') + D(rng.randint(0, 20)) / 100
            if rng.random() < 0.5:
                post = [('Assets:EUR', f'{_amt(eur)} EUR @ {rate} USD'), ('Assets:Bank:Checking', None)]
            else:
                total = (eur * rate).quantize(D('0.01'))
                post = [('Assets:EUR', f'{_amt(eur)} EUR @@ {_amt(total)} USD'), ('Assets:Bank:Checking', f'-{_amt(total)} USD')]
        elif kind == 'multi':
            k = rng.randint(2, 5)
            post = []
            for _ in range(k):
                x = D(rng.randint(1, 9999)) / 100
                post.append((rng.choice(['Expenses:Food', 'Expenses:Fees', 'Expenses:Rent', 'Expenses:Food:Out']), f'{_amt(x)} USD'))
            post.append((rng.choice(['Assets:Cash', 'Liabilities:Card']), None))
        elif kind == 'card':
            x = D(rng.randint(1, 30000)) / 100
            post = [('Liabilities:Card', f'-{_amt(x)} USD'), ('Expenses:Food:Out', f'{_amt(x)} USD')]
        else:
            x = D(rng.randint(1, 100000)) / 100
            post = [('Assets:Bank:Savings', f'{_amt(x)} USD'), ('Assets:Bank:Checking', f'-{_amt(x)} USD')]
        lines.append(head)
        lines.extend(_meta_lines(rng, '  ', 0.25))
        for acc, amount in post:
            pflag = '! ' if rng.random() < 0.08 else ''
            lines.append(f'  {pflag}{acc}' + (f'  {amount}' if amount else ''))
            lines.extend(_meta_lines(rng, '    ', 0.15))
        lines.append('')
        # side directives
        r = rng.random()
        if r < 0.12:
            s = rng.choice(STOCKS)
            lines.append(f'{d} price {s} {price[s] + rng.randint(-3, 3)} USD')
        elif r < 0.18:
            lines.append(f'{d} price EUR 1.{rng.randint(10, 30)} USD')
        elif r < 0.24:
            nacc = rng.choice(accounts)
            lines.append(f'{d} note {nacc} "{rng.choice(["called", "checked", "Assets:Cash"])}"')
            if rng.random() < 0.4:
                lines.append(f'{d} note {nacc} "second note of the day"')
        elif r < 0.30:
            lines.append(f'{d} event "{rng.choice(["location", "employer", "note"])}" "{rng.choice(["Paris", "NYC", "location"])}"')
        elif r < 0.34:
            lines.append(f'{d} document {rng.choice(accounts)} "{__file__}"')
    # prices at the end of each year so that value() is non trivial
    for y in range(start_year, start_year + nyears):
        for s in STOCKS:
            lines.append(f'{y}-12-31 price {s} {price[s] + (y - start_year) * 7} USD')
        lines.append(f'{y}-06-30 price EUR 1.{15 + y % 10} USD')
    if rng.random() < 0.3:
        # prices dated after the day the check runs (budgets, forecasts): "the latest price" is one of these
        fy = datetime.date.today().year + rng.choice([1, 5, 70])
        lines.append(f'{fy}-12-31 price {rng.choice(STOCKS)} {rng.randint(200, 400)} USD')
        if rng.random() < 0.5:
            lines.append(f'{fy}-01-15 price EUR 2.{rng.randint(10, 90)} USD')
    if exotic is None:
        exotic = rng.random() < 0.35
    if exotic:
        # unusual but legitimate content: non-ASCII and long account names, currencies with dots, dashes and digits, zero
        # amounts, one and eight postings, total prices, the same lot twice, labels, tags and links with special characters,
        # a custom directive, a balance assertion with a tolerance, several directives on one day, metadata on postings
        ey = start_year + rng.randint(0, nyears - 1)
        ed = datetime.date(ey, rng.randint(1, 12), rng.randint(1, 28))
        long_acc = 'Assets:' + ':'.join(f'Niveau{i}' for i in range(1, 9))
        lines += [
            f'{open_date} open Assets:Épargne:Livret-A',
            f'{open_date} open Expenses:Café:Crème',
            f'{open_date} open {long_acc}',
            f'{open_date} open Assets:Crypto  BTC.X,T-BILL,A1',
            f'{open_date} commodity T-BILL',
            '  name: "treasury bill"',
            f'{ed} * "Ünïcödé päyéé" "naïve café — 日本語"  #a_b.c/d ^l.1/x-y',
            '  Expenses:Café:Crème   4.50 EUR',
            '  Assets:Épargne:Livret-A  -4.50 EUR',
            f'{ed} * "zero and one"',
            '  Assets:Cash   0.00 USD',
            f'{ed} ! "eight postings"',
        ] + [f'  Expenses:Food   {i}.0{i} USD' for i in range(1, 8)] + ['  Assets:Cash  -28.28 USD'] + [
            f'{ed} * "twice the same lot"',
            f'  Assets:Crypto   2 BTC.X {{1000.00 USD, {ed}, "lot-α"}}',
            '    ref: "first"',
            f'  Assets:Crypto   3 BTC.X {{1000.00 USD, {ed}, "lot-α"}}',
            '  Assets:Cash  -5000.00 USD',
            f'{ed} * "a grant: lots at no cost" "Cafe\u0301 de\u0301compose\u0301"',
            '  Assets:Crypto   5 BTC.X {0.00 USD, "bonus"}',
            '  Assets:Crypto   3 A1 {0 USD}',
            '  Income:Gains',
            f'{ed} * "total price and tiny numbers"',
            '  Assets:Crypto   7 T-BILL @@ 693.07 USD',
            '  Assets:Crypto   0.00000001 A1 @ 123456789.00 USD',
            '  Assets:Cash',
            f'{ed} * "AMAZON  MKTPLACE   PMTS" " espresso\tand  cake "',
            '  Expenses:Food   3.00 USD',
            '  Assets:Cash',
            f'{ed} * "the same commodity with and without cost in one account"',
            '  Assets:Crypto   1 BTC.X @ 1000.00 USD',
            '  Assets:Cash  -1000.00 USD',
            f'{open_date} open Assets:Twin:A',
            f'{open_date} open Assets:Twin:B',
            f'{open_date} open Expenses:Twin:A',
            f'{open_date} open Expenses:Twin:B',
            f'{ed} * "two accounts with the same balance, two with the same activity"',
            '  Assets:Twin:A   700.00 USD',
            '  Assets:Twin:B   700.00 USD',
            '  Expenses:Twin:A   30.00 USD',
            '  Expenses:Twin:B   30.00 USD',
            '  Equity:Opening',
            f'{ed} custom "budget" Expenses:Food "monthly" 250.00 USD TRUE {ed}',
            f'{ed} note Assets:Épargne:Livret-A "same day, first"',
            f'{ed} note Assets:Épargne:Livret-A "same day, second"',
            f'{ed + datetime.timedelta(days=1)} balance Assets:Épargne:Livret-A  -4.505 ~ 0.01 EUR',
            f'{ed + datetime.timedelta(days=1)} balance Assets:Crypto  0 EUR',
            f'{ed + datetime.timedelta(days=1)} event "location" "Zürich"',
            f'{ed + datetime.timedelta(days=2)} price T-BILL 99.01 USD',
            f'{ed + datetime.timedelta(days=2)} price BTC.X 1234.5678 USD',
        ]
    if with_pad and rng.random() < 0.5:
        pd = datetime.date(start_year, 1, 1) + datetime.timedelta(days=rng.randint(0, 300))
        lines.append(f'{pd} pad Assets:Cash Equity:Opening')
        lines.append(f'{pd + datetime.timedelta(days=rng.randint(1, 200))} balance Assets:Cash  {rng.randint(0, 900)}.00 USD')
    if rng.random() < 0.4:
        cd = datetime.date(start_year + nyears, 1, 5)
        lines.append(f'{cd} close Liabilities:Loan')
    if with_queries:
        qd = datetime.date(start_year + rng.randint(0, nyears - 1), rng.randint(1, 12), 15)
        lines.append(f'{qd} query "cash" "SELECT date, account, position FROM year >= {start_year} WHERE account ~ \'Cash\'"')
        lines.append(f'{qd} query "bal" "BALANCES FROM flag = \'*\'"')
        lines.append(f'{qd} query "closed" "SELECT account, sum(position) AS total FROM OPEN ON {start_year}-03-01 CLOSE ON {start_year + 1}-06-01 GROUP BY account ORDER BY account"')
        lines.append(f'{qd} query "plain" "SELECT account, count(*) AS n GROUP BY account ORDER BY account"')
    text = '\n'.join(lines) + '\n'
    if renamed_roots:
        import re
        for k, v in RENAMED.items():
            text = re.sub(r'\b' + k + r'(?=:)', v, text)
    return Ledger(text)

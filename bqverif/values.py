"""Value helpers: strict equality, datatype conformance, readable encoding."""
import collections.abc
import datetime
import enum
from decimal import Decimal


def same(a, b):
    """Strict equality used by the value oracles: same Python type, equal value,
    Decimals also equal in sign/digits/exponent, containers element-wise."""
    if a is None or b is None:
        return a is b
    if type(a) is not type(b):
        # bool vs int must not be confused, Decimal vs int neither
        if isinstance(a, (list, tuple)) and isinstance(b, (list, tuple)):
            pass
        else:
            return False
    if isinstance(a, Decimal):
        if a.is_nan() or b.is_nan():
            return a.is_nan() and b.is_nan()
        return a.as_tuple() == b.as_tuple()
    if isinstance(a, (list, tuple)):
        return len(a) == len(b) and all(same(x, y) for x, y in zip(a, b))
    return a == b


def same_rows(rows_a, rows_b):
    if len(rows_a) != len(rows_b):
        return False
    return all(same(tuple(ra), tuple(rb)) for ra, rb in zip(rows_a, rows_b))


def first_row_diff(rows_a, rows_b):
    for i, (ra, rb) in enumerate(zip(rows_a, rows_b)):
        if not same(tuple(ra), tuple(rb)):
            return i, ra, rb
    if len(rows_a) != len(rows_b):
        i = min(len(rows_a), len(rows_b))
        return i, (rows_a[i] if i < len(rows_a) else '<missing>'), (rows_b[i] if i < len(rows_b) else '<missing>')
    return None


def show(v):
    """Readable, JSON-able rendering of a value."""
    if v is None or isinstance(v, (bool, int, str)):
        return v
    if isinstance(v, Decimal):
        return f"Decimal('{v}')"
    if isinstance(v, datetime.date):
        return f'date({v.isoformat()})'
    if isinstance(v, (list, tuple)):
        return [show(x) for x in v]
    if isinstance(v, (set, frozenset)):
        try:
            return {'set': [show(x) for x in sorted(v)]}
        except TypeError:
            return {'set': [show(x) for x in v]}
    if isinstance(v, dict):
        return {str(k): show(x) for k, x in v.items()}
    return repr(v)


def show_rows(rows, limit=12):
    out = [show(tuple(r)) for r in rows[:limit]]
    if len(rows) > limit:
        out.append(f'... {len(rows) - limit} more')
    return out


_COLLECTIONS = (set, frozenset, list, tuple)


def conforms(value, dtype):
    """True when a non-NULL value is admissible for an announced datatype.

    Deliberately permissive, following the property: object admits anything,
    collections are compared by kind, structured types admit the Python type
    they alias."""
    if value is None:
        return True
    from beanquery import types as bqtypes
    if dtype is object or dtype is bqtypes.Any or isinstance(dtype, bqtypes.AnyType):
        return True
    if dtype is bqtypes.Asterisk:
        return True
    if not isinstance(dtype, type):
        return True
    if issubclass(dtype, (set, frozenset, list, tuple)):
        return isinstance(value, _COLLECTIONS)
    if issubclass(dtype, dict):
        return isinstance(value, collections.abc.Mapping)
    if issubclass(dtype, bqtypes.Structure):
        for pytype, struct in bqtypes.ALIASES.items():
            if struct is dtype and isinstance(value, pytype):
                return True
        # Open / Close (no alias registered): the namedtuple of the same name
        return type(value).__name__.lower() == (dtype.name or dtype.__name__).lower()
    if dtype is bool:
        return isinstance(value, bool)
    if dtype is int:
        return isinstance(value, int)
    if issubclass(dtype, enum.Enum):
        return isinstance(value, dtype)
    return isinstance(value, dtype)

"""Runtime monitors attached to the real engine from the harness.

M2  node evaluation hook: dtype conformance of every evaluated node, AND/OR
    operand evaluation trace, coverage counters
M3  aggregator protocol monitor (initialize / update / finalize / read)
M4  running-balance monitor (at most one add per row context and rowid)
M6  exception classification
"""
import collections
import itertools
import threading

from .values import conforms
from . import engine


class Monitor:
    def __init__(self):
        self.enabled = False
        self.node_evals = 0
        self.dtype_violations = []        # (node repr, dtype, value repr)
        self.bool_traces = []             # ('and'|'or', [values of evaluated args], nargs, result)
        self.trace_bools = False
        self.cover = collections.Counter()
        self.tls = threading.local()
        self.agg_events = []              # (op, node id, store id)
        self.agg_violations = []
        self.agg_state = {}
        self.trace_aggs = False
        self.balance_adds = collections.Counter()   # (context id, rowid) -> adds
        self.balance_violations = []
        self.balance_events = 0
        self.point_hook = None            # scheduler hook called at each node evaluation
        self.wrapped_classes = 0
        self.install_problems = []

    def reset(self):
        self.dtype_violations.clear()
        self.bool_traces.clear()
        self.agg_events.clear()
        self.agg_violations.clear()
        self.agg_state.clear()
        self.balance_adds.clear()
        self.balance_violations.clear()


MON = Monitor()
_installed = False


def _wrap_class(cls):
    """Wrap cls.__call__ when cls defines it itself."""
    from beanquery import query_compile
    if '__call__' not in cls.__dict__ or cls.__dict__.get('_bqverif_wrapped'):
        return
    raw = cls.__dict__['__call__']
    if isinstance(raw, staticmethod):
        inner = raw.__func__

        def orig(self, context, _inner=inner):
            return _inner(context)
    else:
        orig = raw
    is_and = issubclass(cls, query_compile.EvalAnd)
    is_or = issubclass(cls, query_compile.EvalOr)
    mon = MON

    def __call__(self, context):
        hook = mon.point_hook
        if hook is not None:
            hook(self)
        if not mon.enabled:
            return orig(self, context)
        mon.node_evals += 1
        if (is_and or is_or) and mon.trace_bools:
            value = _traced_bool(self, context, orig, 'and' if is_and else 'or')
        else:
            value = orig(self, context)
        if value is not None and not conforms(value, self.dtype):
            if len(mon.dtype_violations) < 20:
                mon.dtype_violations.append((type(self).__name__, getattr(self.dtype, '__name__', str(self.dtype)),
                                             type(value).__name__, repr(value)[:80]))
        return value

    cls.__call__ = __call__
    cls._bqverif_wrapped = True
    MON.wrapped_classes += 1


def _traced_bool(node, context, orig, kind):
    """Evaluate an AND/OR node while recording which operands were evaluated."""
    seen = []
    wrapped = []
    for arg in node.args:
        wrapped.append(_Probe(arg, seen))
    saved = node.args
    node.args = wrapped
    try:
        value = orig(node, context)
    finally:
        node.args = saved
    MON.bool_traces.append((kind, list(seen), len(saved), value))
    return value


class _Probe:
    __slots__ = ('node', 'seen')

    def __init__(self, node, seen):
        self.node = node
        self.seen = seen

    def __call__(self, context):
        v = self.node(context)
        self.seen.append(v)
        return v


def _all_subclasses(cls):
    out = []
    stack = [cls]
    while stack:
        c = stack.pop()
        for s in c.__subclasses__():
            out.append(s)
            stack.append(s)
    return out


def install():
    """Attach the monitors (idempotent)."""
    global _installed
    if _installed:
        return MON
    engine.bq()
    from beanquery import query_compile, query_env
    for cls in [query_compile.EvalNode, *_all_subclasses(query_compile.EvalNode)]:
        _wrap_class(cls)

    # classes created later (sub-query columns, harness columns, user functions)
    def __init_subclass__(cls, **kwargs):
        super(query_compile.EvalNode, cls).__init_subclass__(**kwargs)
        _wrap_class(cls)
    query_compile.EvalNode.__init_subclass__ = classmethod(__init_subclass__)

    # column classes manufactured per sub-query (when the engine does so; the __init_subclass__ hook above
    # also sees them — this is belt and braces and must not depend on the engine's internal layout)
    orig_column = getattr(getattr(query_compile, 'SubqueryTable', None), 'column', None)
    if orig_column is not None:
        def column(i, name, dtype):
            cls = orig_column(i, name, dtype)
            _wrap_class(cls)
            return cls
        query_compile.SubqueryTable.column = staticmethod(column)

    try:
        _install_aggregator_monitor(query_compile)
    except Exception as exc:  # noqa: BLE001
        MON.install_problems.append(f'aggregator monitor: {exc!r}')
    try:
        _install_balance_monitor(query_env)
    except Exception as exc:  # noqa: BLE001
        MON.install_problems.append(f'balance monitor: {exc!r}')
    try:
        _install_compile_points()
    except Exception as exc:  # noqa: BLE001
        MON.install_problems.append(f'compile points: {exc!r}')
    _installed = True
    return MON


def _install_compile_points():
    """Scheduling points in the parse / compile phase (for C20): entry of parse(), of Compiler.compile(), of every overload
    look-up and of the clause compilers. They only call the scheduler hook; they observe nothing."""
    from beanquery import types as bqtypes, compiler, parser
    mon = MON

    def pointed(fn, label):
        marker = type(label, (), {})()

        def wrapper(*a, **kw):
            hook = mon.point_hook
            if hook is not None:
                hook(marker)
            return fn(*a, **kw)
        wrapper.__name__ = getattr(fn, '__name__', label)
        wrapper.__doc__ = getattr(fn, '__doc__', None)
        return wrapper
    bqtypes.function_lookup = pointed(bqtypes.function_lookup, 'compile:function_lookup')
    parser.parse = pointed(parser.parse, 'parse')
    C = compiler.Compiler
    for name in ('compile', '_compile_from', '_compile_targets', '_compile_group_by', '_compile_order_by', '_compile_pivot_by'):
        if name in C.__dict__:
            setattr(C, name, pointed(C.__dict__[name], f'compile:{name}'))
    # execution phase before the first row: derivation of the period view (OPEN / CLOSE / CLEAR), start of a scan
    from beanquery import query_env, query_execute, cursor
    summ = getattr(query_env, 'summarize', None)
    if summ is not None:
        for name in ('open_opt', 'close_opt', 'clear_opt', 'open', 'close', 'clear', 'truncate', 'clamp_opt'):
            fn = getattr(summ, name, None)
            if callable(fn) and not getattr(fn, '_bqv_pointed', False):
                w = pointed(fn, f'prepare:{name}')
                w._bqv_pointed = True
                setattr(summ, name, w)
    for cls in [query_env.BeanTable, *_all_subclasses(query_env.BeanTable)]:
        for name in ('prepare', 'update', '__iter__'):
            if name in cls.__dict__ and callable(cls.__dict__[name]):
                setattr(cls, name, pointed(cls.__dict__[name], f'table:{name}'))
    for mod, names in ((query_execute, ('execute_query', 'execute_select', 'execute_print')),):
        for name in names:
            if callable(getattr(mod, name, None)):
                setattr(mod, name, pointed(getattr(mod, name), f'execute:{name}'))


# ---------------------------------------------------------------------------
# M3 aggregator protocol

def _install_aggregator_monitor(query_compile):
    mon = MON
    classes = [query_compile.EvalAggregator, *_all_subclasses(query_compile.EvalAggregator)]

    def wrap(cls, name):
        if name not in cls.__dict__:
            return
        orig = cls.__dict__[name]

        if name == 'initialize':
            def f(self, store):
                if mon.trace_aggs:
                    key = (id(self), id(store))
                    st = mon.agg_state.get(key)
                    if st is not None:
                        mon.agg_violations.append(f'initialize twice for one (node, store): {type(self).__name__}')
                    mon.agg_state[key] = 'init'
                    mon.agg_events.append(('initialize', id(self), id(store)))
                return orig(self, store)
        elif name == 'update':
            def f(self, store, context):
                if mon.trace_aggs:
                    key = (id(self), id(store))
                    st = mon.agg_state.get(key)
                    if st is None:
                        mon.agg_violations.append(f'update before initialize: {type(self).__name__}')
                    elif st == 'final':
                        mon.agg_violations.append(f'update after finalize: {type(self).__name__}')
                    else:
                        mon.agg_state[key] = 'upd'
                    mon.agg_events.append(('update', id(self), id(store)))
                return orig(self, store, context)
        elif name == 'finalize':
            def f(self, store):
                if mon.trace_aggs:
                    key = (id(self), id(store))
                    st = mon.agg_state.get(key)
                    if st is None:
                        mon.agg_violations.append(f'finalize before initialize: {type(self).__name__}')
                    mon.agg_state[key] = 'final'
                    mon.agg_events.append(('finalize', id(self), id(store)))
                return orig(self, store)
        else:
            return
        setattr(cls, name, f)

    for cls in classes:
        for name in ('initialize', 'update', 'finalize'):
            wrap(cls, name)


# ---------------------------------------------------------------------------
# M4 running balance

def _install_balance_monitor(query_env):
    from beancount.core import inventory
    mon = MON

    class WatchedInventory(inventory.Inventory):
        """Inventory recording every add_position with its row context."""
        __slots__ = ('_bqv_ctx',)

        def add_position(self, position):
            ctx = getattr(self, '_bqv_ctx', None)
            if ctx is not None:
                mon.balance_events += 1
                # a serial number given to the row context at creation: id() values are re-used after a scan is over
                key = (getattr(ctx, '_bqv_serial', id(ctx)), ctx.rowid)
                mon.balance_adds[key] += 1
                if mon.balance_adds[key] > 1:
                    mon.balance_violations.append(
                        f'posting added {mon.balance_adds[key]} times to the running balance for rowid {ctx.rowid}')
                cur = getattr(ctx, 'posting', None)
                if cur is not None and position is not cur:
                    mon.balance_violations.append('running balance received a posting other than the current row')
            return super().add_position(position)

    orig_init = query_env.Row.__init__

    serial = itertools.count(1)

    def __init__(self, entries, options):
        orig_init(self, entries, options)
        try:
            self._bqv_serial = next(serial)
            inv = WatchedInventory()
            inv._bqv_ctx = self
            self.balance = inv
        except Exception:  # noqa: BLE001
            pass
    query_env.Row.__init__ = __init__
    mon.WatchedInventory = WatchedInventory


# ---------------------------------------------------------------------------
# M6 exception classification

def classify_exception(exc):
    beanquery = engine.bq()
    if isinstance(exc, beanquery.ParseError):
        return 'ParseError'
    if isinstance(exc, beanquery.CompilationError):
        return 'CompilationError'
    if isinstance(exc, beanquery.ProgrammingError):
        return 'ProgrammingError'
    if isinstance(exc, (TypeError, AttributeError)):
        return 'TypeError'
    return type(exc).__name__


def location_problem(exc, text):
    """Validate the source location carried by a ParseError/CompilationError."""
    pi = getattr(exc, 'parseinfo', None)
    if pi is None:
        return None
    try:
        src = pi.tokenizer.text
        pos, endpos, line = pi.pos, pi.endpos, pi.line
    except Exception as e:  # noqa: BLE001
        return f'parseinfo unreadable: {e!r}'
    if text is not None and src != text:
        return 'location refers to a different text than the statement'
    if not (0 <= pos <= endpos <= len(src)):
        return f'span [{pos},{endpos}) outside the text of length {len(src)}'
    lines = src.splitlines(True)
    if not (0 <= line < max(1, len(lines))):
        return f'line {line} outside the text ({len(lines)} lines)'
    from beanquery import shell
    try:
        shell.render_exception(exc)
    except Exception as e:  # noqa: BLE001
        return f'render_exception raised {e!r}'
    return None

"""Glue to the real engine: harness tables, connections, execution helpers."""
import copy
import functools

from . import ir
from .model import ModelTable

_loaded = {}


def bq():
    """Import beanquery (and the function library) once."""
    if 'bq' not in _loaded:
        import beanquery
        import beanquery.query_env  # noqa: F401  fills the FUNCTIONS registry
        import beanquery.sources.beancount  # noqa: F401
        _loaded['bq'] = beanquery
    return _loaded['bq']


def empty_ledger():
    if 'empty' not in _loaded:
        from beancount import loader
        entries, errors, options = loader.load_string('')
        _loaded['empty'] = (entries, errors, options)
    return _loaded['empty']


def harness_table(mt, update=True):
    """Build a beanquery Table over a ModelTable: one accessor *class* per column
    (compiled nodes are compared structurally by class and slot values)."""
    beanquery = bq()
    from beanquery import tables, query_compile

    columns = {}
    for i, (name, tname) in enumerate(mt.columns):
        dtype = tname if isinstance(tname, type) else ir.pytype(tname)

        def make(i=i, dtype=dtype, name=name):
            class Col(query_compile.EvalColumn):
                __slots__ = ()

                def __init__(self):
                    super().__init__(dtype)

                def __call__(self, row):
                    return row[i]
            Col.__name__ = Col.__qualname__ = f'HCol_{mt.name}_{name}'
            return Col()
        columns[name] = make()

    class HTable(tables.Table):
        def __init__(self):
            self.columns = columns
            self.rows = mt.rows
            self.name = mt.name
            self.scans = 0

        def __iter__(self):
            self.scans += 1
            return iter(self.rows)

        def update(self, **kwargs):
            # FROM <expression> form on a harness table registered as the default table
            return self

        @property
        def wildcard_columns(self):
            return list(mt.wildcard)

    return HTable()


def connection(model_tables=(), ledger=None):
    """A Connection over a (possibly empty) ledger plus harness tables."""
    beanquery = bq()
    entries, errors, options = ledger if ledger is not None else empty_ledger()
    conn = beanquery.connect('beancount:', entries=entries, errors=errors, options=options)
    for mt in model_tables:
        conn.tables[mt.name] = harness_table(mt)
    return conn


def run(conn, statement, params=None):
    """Execute text or AST; -> (names, datatypes, rows)."""
    cursor = conn.execute(statement, params)
    desc = cursor.description
    rows = cursor.fetchall()
    return [d.name for d in desc], [d.datatype for d in desc], rows


def types_match(model_types, datatypes):
    """Compare model type names with announced engine datatypes."""
    for mt, dt in zip(model_types, datatypes):
        if mt == ir.T_NULL:
            continue
        if ir.pytype(mt) is not dt:
            return False
    return len(model_types) == len(datatypes)

"""Syntactic statement generator (for the parser-centred properties C05-C07):
expression trees over every operator with arbitrary identifiers; types are ignored."""
import datetime
from decimal import Decimal

from . import ir

D = Decimal

PLAIN_IDENTS = ['a', 'b', 'c', 'x1', 'account', 'position', 'date', 'units', 'foo_bar', '_x', 'a1b2', 'year', 'cost', 'total_', 'x__', '_']
# identifiers that contain or start with reserved words
TRICKY_IDENTS = ['nota', 'android', 'ordering', 'inx', 'isx', 'asc1', 'trueish', 'selection', 'fromage', 'nullable',
                 'opening', 'closed', 'clearing', 'limits', 'ons', 'ats', 'byte', 'betweenness', 'grouping']
UNDERSCORE_IDENTS = ['not_a', 'and_x', 'or_x', 'in_usd', 'is_x', 'as_x', 'asc_x', 'desc_x', 'by_x', 'true_x', 'false_x', 'null_x',
                     'select_x', 'from_x', 'where_x', 'group_x', 'order_x', 'having_x', 'limit_x', 'pivot_x', 'distinct_x',
                     'open_date', 'close_date', 'clear_x', 'on_x', 'at_x', 'between_x', 'balances_x', 'journal_x', 'print_x']
FUNCS = ['f', 'sum', 'count', 'units', 'coalesce', 'year', 'lower_x', 'g2']

BINOPS = ['mul', 'div', 'mod', 'add', 'sub', 'eq', 'ne', 'gt', 'ge', 'lt', 'le', 'match', 'notmatch', 'in', 'notin']
UNOPS = ['not', 'neg', 'isnull', 'isnotnull']

INT_LITS = [0, 1, 7, 42, 2020, 10 ** 29 + 7]
DEC_LITS = [D('0.5'), D('1.50'), D('1'), D('123456.789'), D('0.001'), D('10.0')]
STR_LITS = ['', 'a', 'it"s' if False else "it's", 'say "hi"', 'Assets:Cash', '%', 'x y', 'AND', ';not a comment', '/* no */', '(1,2)', "it''s", 'say ""hi""', "''", '""', "a''''b", '--', "'", '"']
DATE_LITS = [datetime.date(2020, 1, 1), datetime.date(1, 1, 1), datetime.date(9999, 12, 31), datetime.date(2024, 2, 29)]


class SynGen:
    def __init__(self, rng, idents=None, max_depth=4, placeholders=False, subselects=True):
        self.rng = rng
        self.idents = idents or (PLAIN_IDENTS + TRICKY_IDENTS)
        self.max_depth = max_depth
        self.placeholders = placeholders
        self.subselects = subselects

    def ident(self):
        return self.rng.choice(self.idents)

    def literal(self):
        rng = self.rng
        r = rng.random()
        if r < 0.25:
            return ir.lit(rng.choice(INT_LITS), ir.T_INT)
        if r < 0.45:
            return ir.lit(rng.choice(DEC_LITS), ir.T_DEC)
        if r < 0.65:
            return ir.lit(rng.choice(STR_LITS), ir.T_STR)
        if r < 0.8:
            return ir.lit(rng.choice(DATE_LITS), ir.T_DATE)
        if r < 0.9:
            return ir.lit(rng.choice([True, False]), ir.T_BOOL)
        return ir.null()

    def list_literal(self):
        rng = self.rng
        n = rng.randint(1, 5)
        vals = []
        for _ in range(n):
            vals.append(self.literal().value)       # NULL is a literal too: (1, NULL, 2)
        return ir.lit(vals, ir.T_LIST)

    def primary(self, depth):
        rng = self.rng
        r = rng.random()
        if r < 0.35 or depth <= 0:
            return ir.col(self.ident(), None)
        if r < 0.55:
            return self.literal()
        if r < 0.65:
            base = ir.col(self.ident(), None)
            for _ in range(rng.randint(1, 3)):
                if rng.random() < 0.7:
                    base = ir.attr(base, self.ident(), None)
                else:
                    base = ir.subscript(base, rng.choice(['k', 'a b', '']))
            return base
        if r < 0.85:
            name = rng.choice(FUNCS + [self.ident()])
            if rng.random() < 0.15:
                return ir.agg(name, [], None)      # f(*)
            n = rng.choice([0, 1, 1, 2, 3])
            return ir.func(name, [self.expr(depth - 1) for _ in range(n)], None)
        if r < 0.92 and self.placeholders:
            return ir.param(1, name=(None if self.placeholders == 'positional' else self.ident()), type=ir.T_INT)
        return self.list_literal()

    def expr(self, depth=None):
        rng = self.rng
        if depth is None:
            depth = rng.randint(0, self.max_depth)
        if depth <= 0:
            return self.primary(0)
        r = rng.random()
        if r < 0.2:
            return self.primary(depth)
        if r < 0.55:
            op = rng.choice(BINOPS)
            l = self.expr(depth - 1)
            if op in ('in', 'notin') and rng.random() < 0.6:
                rt = self.list_literal() if rng.random() < 0.7 or not self.subselects else ir.subq(self.select(depth=1, simple=True))
            else:
                rt = self.expr(depth - 1)
            return ir.bin_(op, l, rt, None)
        if r < 0.7:
            return ir.un(rng.choice(UNOPS), self.expr(depth - 1), None)
        if r < 0.78:
            return ir.between(self.expr(depth - 1), self.expr(depth - 1), self.expr(depth - 1))
        n = rng.choice([2, 2, 3, 4])
        args = [self.expr(depth - 1) for _ in range(n)]
        return ir.and_(*args) if rng.random() < 0.5 else ir.or_(*args)

    def from_(self, allow_expr=True):
        rng = self.rng
        f = ir.From()
        if allow_expr and rng.random() < 0.6:
            f.expr = self.expr(rng.randint(0, 2))
        if rng.random() < 0.4:
            f.open = rng.choice(DATE_LITS)
        if rng.random() < 0.5:
            f.close = rng.choice([True, rng.choice(DATE_LITS)])
        if rng.random() < 0.4:
            f.clear = True
        if f.expr is None and f.open is None and f.close is None and not f.clear:
            f.clear = True
        return f

    def key(self, with_dir=False):
        rng = self.rng
        r = rng.random()
        desc = rng.choice([None, None, False, True]) if with_dir else None
        if r < 0.3:
            return ir.Key('index', rng.choice([1, 2, 10]), desc)
        if r < 0.55:
            return ir.Key('name', self.ident(), desc)
        return ir.Key('expr', self.expr(rng.randint(0, 2)), desc)

    def select(self, depth=2, simple=False):
        rng = self.rng
        q = ir.Query()
        if rng.random() < 0.1 and not simple:
            q.star = True
        else:
            for _ in range(rng.randint(1, 1 if simple else 4)):
                alias = self.ident() if rng.random() < 0.3 else None
                q.targets.append(ir.Target(self.expr(rng.randint(0, depth)), alias))
        r = rng.random()
        if r < 0.25:
            q.table = rng.choice(['t', 'postings', 'Entries', '_x', ''])
        elif r < 0.4 and not simple and self.subselects:
            q.subquery = self.select(depth=1, simple=True)
        elif r < 0.6:
            q.from_ = self.from_()
        if rng.random() < 0.5:
            q.where = self.expr(rng.randint(0, depth))
        if simple:
            return q
        if rng.random() < 0.4:
            q.group_by = [self.key() for _ in range(rng.randint(1, 3))]
            if rng.random() < 0.4:
                q.having = self.expr(rng.randint(0, 2))
        if rng.random() < 0.4:
            q.order_by = [self.key(with_dir=True) for _ in range(rng.randint(1, 3))]
        if rng.random() < 0.15:
            q.pivot_by = [ir.Key('name', self.ident()) if rng.random() < 0.5 else ir.Key('index', rng.randint(1, 3)) for _ in range(2)]
        if rng.random() < 0.3:
            q.limit = rng.choice([0, 1, 10, 10 ** 20])
        q.distinct = rng.random() < 0.2
        return q

    def statement(self):
        rng = self.rng
        r = rng.random()
        if r < 0.7:
            return self.select()
        if r < 0.8:
            return ir.Stmt('balances', summary_func=rng.choice([None, 'units', 'cost', self.ident()]),
                           from_=self.from_() if rng.random() < 0.6 else None,
                           where=self.expr(rng.randint(0, 2)) if rng.random() < 0.5 else None)
        if r < 0.9:
            return ir.Stmt('journal', account=rng.choice([None, 'Assets', "it's", 'a|b']),
                           summary_func=rng.choice([None, 'units', 'cost']), from_=self.from_() if rng.random() < 0.6 else None)
        return ir.Stmt('print', from_=self.from_() if rng.random() < 0.7 else None)

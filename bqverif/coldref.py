"""Cold-process reference executions.

`python -m bqverif.coldref` reads a JSON job from stdin
    {"ledgers": {key: ledger text}, "jobs": [[job id, ledger key, statement text], ...]}
executes every job on a connection of its own (a new connection per statement, the
jobs in REVERSED order) in a process that has executed nothing else, and writes
{job id: normalised outcome} to stdout. The caller runs the same jobs at the end of
a long-lived process, in forward order, on long-lived connections: whatever the
engine keeps between statements (per connection or per process) is warm there and
cold here, so an outcome that depends on what was executed before differs.
"""
import datetime
import json
import sys
from decimal import Decimal


def norm(v):
    """A process-independent rendering of a result value."""
    from beancount.core import inventory, position, amount
    if v is None or isinstance(v, (bool, int, str)):
        return repr(v)
    if isinstance(v, Decimal):
        return f'D({v})'
    if isinstance(v, datetime.date):
        return v.isoformat()
    if isinstance(v, inventory.Inventory):
        return 'Inv[' + '; '.join(sorted(norm(p) for p in v.get_positions())) + ']'
    if isinstance(v, position.Position):
        return f'Pos({norm(v.units)} {{{norm(v.cost)}}})'
    if isinstance(v, amount.Amount):
        return f'{norm(v.number)} {v.currency}'
    if isinstance(v, (set, frozenset)):
        return '{' + ', '.join(sorted(norm(x) for x in v)) + '}'
    if isinstance(v, dict):
        return '{' + ', '.join(f'{k!r}: {norm(x)}' for k, x in sorted(v.items(), key=lambda kv: repr(kv[0]))) + '}'
    if isinstance(v, tuple) and hasattr(v, '_fields'):
        return type(v).__name__ + '(' + ', '.join(f'{f}={norm(getattr(v, f))}' for f in v._fields if f not in ('meta', 'postings')) + ')'
    if isinstance(v, (list, tuple)):
        return '[' + ', '.join(norm(x) for x in v) + ']'
    return repr(v)


def outcome(conn, text):
    try:
        cur = conn.execute(text)
        desc = cur.description
        rows = cur.fetchall()
        return {'ok': True, 'names': [d.name for d in desc], 'types': [getattr(d.datatype, '__name__', str(d.datatype)) for d in desc],
                'rows': [[norm(c) for c in r] for r in rows]}
    except Exception as exc:  # noqa: BLE001
        return {'ok': False, 'exc': type(exc).__name__}


def main():
    job = json.load(sys.stdin)
    import beanquery
    from beancount import loader
    loaded = {k: loader.load_string(t) for k, t in job['ledgers'].items()}
    out = {}
    for jid, key, text in reversed(job['jobs']):
        entries, errors, options = loaded[key]
        conn = beanquery.connect('beancount:', entries=entries, errors=errors, options=options)
        out[str(jid)] = outcome(conn, text)
    json.dump({'results': out, 'beanquery': beanquery.__file__}, sys.stdout)


if __name__ == '__main__':
    main()

"""Runner: sharding, verdicts, evidence, replay files, known findings.

A check module (bqverif/checks/cNN.py) provides:

    ID          'C01'
    LEVEL       'exploration'
    RULE        text: how cases are generated, what makes one distinct/non-trivial
    ASSUMPTIONS list of strings
    def run(ctx)                 drive the workload of shard ctx.shard of ctx.nshards
    def replay(ctx, case)        re-run one recorded case (optional)
    def finalize(merged)         -> list of inconclusive reasons (floors); may add
                                    extra keys to merged['extra']
"""
import argparse
import hashlib
import importlib
import json
import os
import random
import subprocess
import sys
import tempfile
import time
import traceback
import collections

VERIF = os.path.dirname(os.path.dirname(os.path.abspath(__file__)))
EVIDENCE = os.environ.get('BQVERIF_EVIDENCE_DIR') or os.path.join(VERIF, 'evidence')
REPLAYS = os.path.join(EVIDENCE, 'replays')
DEPS = os.path.join(VERIF, '.deps')
WHEELS = '/opt/veriftools/wheels'
KNOWN = os.path.join(VERIF, 'known_findings.json')

MAX_SAMPLES = 8
MAX_VIOLATIONS_PER_SHARD = 40


class HarnessError(Exception):
    """A bug of the harness itself (generator, model, printer); never a violation."""


def stable_hash(*parts):
    h = hashlib.sha256()
    for p in parts:
        h.update(repr(p).encode())
        h.update(b'\0')
    return h.hexdigest()


def ensure_deps():
    """Install icontract/deal beside the repository's interpreter (offline)."""
    marker = os.path.join(DEPS, 'icontract')
    if os.path.isdir(marker):
        return True
    os.makedirs(DEPS, exist_ok=True)
    cmd = [sys.executable, '-m', 'pip', 'install', '--quiet', '--no-index', '--find-links', WHEELS,
           '--target', DEPS, 'icontract', 'deal']
    try:
        subprocess.run(cmd, check=True, stdout=subprocess.DEVNULL, stderr=subprocess.DEVNULL, timeout=300)
    except Exception:  # noqa: BLE001
        return os.path.isdir(marker)
    return True


def setup_paths():
    if DEPS not in sys.path:
        sys.path.append(DEPS)
    alt = os.environ.get('BEANQUERY_VERIF_REPO')
    if alt:
        sys.path.insert(0, alt)


class Ctx:
    """Per-shard context handed to a check's run()."""

    def __init__(self, prop, tier, seed, shard, nshards, budget_s):
        self.prop = prop
        self.tier = tier
        self.seed = seed
        self.shard = shard
        self.nshards = nshards
        self.budget_s = budget_s
        self.t0 = time.monotonic()
        self.evaluations = 0
        self.digests = set()
        self.counters = collections.Counter()
        self.sets = collections.defaultdict(set)
        self.samples = []
        self.violations = []
        self.known_hits = collections.Counter()
        self.notes = []
        self.watchdog = False

    @property
    def quick(self):
        return self.tier == 'quick'

    def pick(self, quick, thorough):
        return quick if self.tier == 'quick' else thorough

    def rng(self, *salt):
        return random.Random(int(stable_hash(self.seed, self.prop, self.shard, *salt)[:16], 16))

    def mine(self, index):
        """Deterministic split of an enumerated space over shards."""
        return index % self.nshards == self.shard

    def out_of_time(self):
        if time.monotonic() - self.t0 > self.budget_s:
            self.watchdog = True
            return True
        return False

    def case(self, digest_src, nontrivial=True, n=1):
        """Record an executed case; digest_src identifies it (distinctness)."""
        self.evaluations += n
        if nontrivial:
            self.digests.add(stable_hash(digest_src)[:16])

    def count(self, key, n=1):
        self.counters[key] += n

    def seen(self, name, item):
        self.sets[name].add(item)

    def sample(self, obj, force=False):
        if len(self.samples) < MAX_SAMPLES or force:
            self.samples.append(obj)

    def violation(self, mech, msg, case=None, detail=None):
        """Report a refutation. mech is the mechanism id used for known-finding
        classification; it must be assigned by a predicate over the witness."""
        self.counters['violations_raw'] += 1
        if sum(1 for v in self.violations if v['mech'] == mech) >= 3:
            return
        if len(self.violations) >= MAX_VIOLATIONS_PER_SHARD:
            return
        self.violations.append({'mech': mech, 'msg': msg, 'case': case, 'detail': detail,
                                'shard': self.shard, 'nshards': self.nshards})

    def dump(self):
        return {
            'shard': self.shard,
            'evaluations': self.evaluations,
            'digests': sorted(self.digests),
            'counters': dict(self.counters),
            'sets': {k: sorted(map(str, v)) for k, v in self.sets.items()},
            'samples': self.samples,
            'violations': self.violations,
            'notes': self.notes,
            'watchdog': self.watchdog,
            'wall_s': time.monotonic() - self.t0,
        }


def load_check(prop):
    return importlib.import_module(f'bqverif.checks.{prop.lower()}')


def jsonable(obj):
    try:
        json.dumps(obj)
        return obj
    except TypeError:
        if isinstance(obj, dict):
            return {str(k): jsonable(v) for k, v in obj.items()}
        if isinstance(obj, (list, tuple, set, frozenset)):
            return [jsonable(v) for v in obj]
        return repr(obj)


def worker_main(args):
    setup_paths()
    prop, tier, seed, shard, nshards, budget, out = args
    ctx = Ctx(prop, tier, int(seed), int(shard), int(nshards), float(budget))
    status = 'ok'
    err = None
    try:
        check = load_check(prop)
        check.run(ctx)
    except HarnessError:
        status = 'harness_error'
        err = traceback.format_exc()
    except Exception as exc:  # noqa: BLE001
        err = traceback.format_exc()
        # an exception raised INSIDE beanquery that a check did not guard is an observation about the engine (the
        # workload reached a statement on which the engine blew up), not a bug of the harness: report it as a
        # violation with the traceback; the rest of this shard's workload is lost, which the evidence records
        tb = traceback.extract_tb(exc.__traceback__)
        inner = tb[-1].filename if tb else ''
        in_engine = any(('/beanquery/' in f.filename and '/bqverif/' not in f.filename) for f in tb[-3:])
        if in_engine and '/bqverif/' not in inner:
            ctx.violation(f'{prop.lower()}.unguarded_engine_exception.{type(exc).__name__}',
                          f'the engine raised {type(exc).__name__}: {exc} where the check expected a result', {'traceback': err[-1500:]})
            ctx.notes.append('shard aborted by an unguarded engine exception')
            err = None
        else:
            status = 'harness_error'
    data = ctx.dump()
    data['status'] = status
    data['error'] = err
    with open(out, 'w') as f:
        json.dump(jsonable(data), f)
    return 0


def load_known(prop):
    if not os.path.exists(KNOWN):
        return {}
    with open(KNOWN) as f:
        entries = json.load(f)
    return {e['key']: e for e in entries.get('findings', [])
            if e.get('property') == prop and e.get('status') == 'known'}


def write_evidence(prop, tier, seed, level, coverage, assumptions, wall_s, violations, extra=None):
    os.makedirs(EVIDENCE, exist_ok=True)
    doc = {
        'property_id': prop,
        'tier': tier,
        'seed': seed,
        'level': level,
        'coverage': coverage,
        'assumptions': assumptions,
        'wall_s': round(wall_s, 2),
        'violations': violations,
    }
    if extra:
        doc.update(extra)
    path = os.path.join(EVIDENCE, f'{prop}.json')
    tmp = path + '.tmp'
    with open(tmp, 'w') as f:
        json.dump(jsonable(doc), f, indent=1, sort_keys=True, default=repr)
    os.replace(tmp, path)
    return path


def write_replay(prop, violation, seed, tier):
    os.makedirs(REPLAYS, exist_ok=True)
    body = json.dumps(jsonable(violation), sort_keys=True, default=repr)
    sha = hashlib.sha256(body.encode()).hexdigest()[:12]
    path = os.path.join(REPLAYS, f'{prop}-{sha}.json')
    with open(path, 'w') as f:
        json.dump({'property': prop, 'seed': seed, 'tier': tier, **jsonable(violation)}, f, indent=1, default=repr)
    return path


def merge(results):
    merged = {
        'evaluations': 0, 'digests': set(), 'counters': collections.Counter(),
        'sets': collections.defaultdict(set), 'samples': [], 'violations': [],
        'notes': [], 'watchdog': 0, 'errors': [], 'shards': len(results), 'extra': {},
    }
    for r in results:
        merged['evaluations'] += r['evaluations']
        merged['digests'].update(r['digests'])
        merged['counters'].update(r['counters'])
        for k, v in r['sets'].items():
            merged['sets'][k].update(v)
        merged['violations'].extend(r['violations'])
        merged['notes'].extend(r['notes'])
        merged['watchdog'] += 1 if r['watchdog'] else 0
        if r['status'] != 'ok':
            merged['errors'].append(r['error'])
    # interleave samples from the shards
    pools = [list(r['samples']) for r in results]
    while any(pools) and len(merged['samples']) < MAX_SAMPLES:
        for p in pools:
            if p and len(merged['samples']) < MAX_SAMPLES:
                merged['samples'].append(p.pop(0))
    return merged


def run_property(prop, tier, seed, replay=None):
    t0 = time.monotonic()
    setup_paths()
    ensure_deps()
    check = load_check(prop)
    level = getattr(check, 'LEVEL', 'exploration')

    if replay:
        with open(replay) as f:
            rec = json.load(f)
        ctx = Ctx(prop, rec.get('tier', tier), rec.get('seed', seed), rec.get('shard', 0), rec.get('nshards', 1), 3600)
        check.replay(ctx, rec.get('case'))
        for v in ctx.violations:
            print(f"REPLAY-VIOLATION property={prop} mech={v['mech']} {v['msg']}")
        print(f'replayed {replay}: {len(ctx.violations)} violation(s)')
        return 1 if ctx.violations else 0

    nshards = int(os.environ.get('VERIF_SHARDS', getattr(check, 'SHARDS', min(16, os.cpu_count() or 1))))
    budget = float(os.environ.get('VERIF_BUDGET_S', getattr(check, 'BUDGET_S', {'quick': 600, 'thorough': 2400})[tier]))
    tmpdir = tempfile.mkdtemp(prefix=f'bqverif-{prop}-')
    procs = []
    env = dict(os.environ)
    env['PYTHONHASHSEED'] = '0'
    env['PYTHONDONTWRITEBYTECODE'] = '1'
    env['BQVERIF_REEXEC'] = '1'
    for shard in range(nshards):
        out = os.path.join(tmpdir, f'shard{shard}.json')
        log = open(os.path.join(tmpdir, f'shard{shard}.log'), 'w')
        cmd = [sys.executable, os.path.join(VERIF, 'run_check.py'), '--worker',
               prop, tier, str(seed), str(shard), str(nshards), str(budget), out]
        procs.append((shard, out, log, subprocess.Popen(cmd, env=env, stdout=log, stderr=subprocess.STDOUT, cwd=VERIF)))
    results = []
    hard_errors = []
    deadline = time.monotonic() + budget * 1.5 + 120
    for shard, out, log, proc in procs:
        try:
            proc.wait(timeout=max(1, deadline - time.monotonic()))
        except subprocess.TimeoutExpired:
            proc.kill()
            hard_errors.append(f'shard {shard}: hard watchdog')
        log.close()
        if os.path.exists(out):
            with open(out) as f:
                results.append(json.load(f))
        else:
            with open(log.name) as f:
                tail = f.read()[-3000:]
            hard_errors.append(f'shard {shard}: no result (rc={proc.returncode})\n{tail}')
    import shutil
    shutil.rmtree(tmpdir, ignore_errors=True)

    merged = merge(results)
    inconclusive = []
    if hard_errors:
        merged['errors'].extend(hard_errors)
    try:
        inconclusive.extend(check.finalize(merged) or [])
    except Exception:  # noqa: BLE001
        merged['errors'].append(traceback.format_exc())

    if not merged['samples']:
        inconclusive.append('the check recorded no sample case')
    known = load_known(prop)
    known_seen = {}
    new = {}
    for v in merged['violations']:
        if v['mech'] in known:
            known_seen.setdefault(v['mech'], v)
        else:
            new.setdefault(v['mech'], v)

    wall = time.monotonic() - t0
    coverage = {
        'evaluations': merged['evaluations'],
        'distinct_nontrivial': len(merged['digests']),
        'rule': check.RULE,
        'samples': merged['samples'],
        'counters': dict(sorted(merged['counters'].items())),
        'observed_sets': {k: sorted(v) for k, v in merged['sets'].items()},
        'shards': merged['shards'],
        'watchdog_shards': merged['watchdog'],
        'inconclusive_reasons': inconclusive,
        'known_findings_hit': sorted(known_seen),
        'harness_errors': len(merged['errors']),
    }
    coverage.update(merged['extra'])
    if getattr(check, 'EXHAUSTIVE', None):
        coverage['exhaustive'] = bool(merged['extra'].get('exhaustive', False))
    write_evidence(prop, tier, seed, level, coverage, getattr(check, 'ASSUMPTIONS', []), wall, len(new))

    print(f'[{prop}] tier={tier} seed={seed} shards={merged["shards"]} evaluations={merged["evaluations"]} '
          f'distinct_nontrivial={len(merged["digests"])} wall={wall:.1f}s')
    for k, v in sorted(merged['counters'].items()):
        if k.startswith('obs.'):
            print(f'  {k} = {v}')
    for mech, v in sorted(known_seen.items()):
        print(f"KNOWN-FINDING: property={prop} {known[mech]['what']}")
    for mech, v in sorted(new.items()):
        path = write_replay(prop, v, seed, tier)
        print(f'  violation mech={mech}: {v["msg"]}')
        print(f'VIOLATION property={prop} replay={path}')
    if new:
        return 1
    if merged['errors']:
        for e in merged['errors'][:3]:
            print('HARNESS-ERROR:', e, file=sys.stderr)
        print(f'HARNESS-ERROR property={prop} count={len(merged["errors"])}')
        return 3
    if inconclusive:
        for r in inconclusive:
            print(f'INCONCLUSIVE property={prop} reason={r}')
        return 2
    print(f'[{prop}] held on everything observed')
    return 0


def main(argv):
    if argv and argv[0] == '--worker':
        return worker_main(argv[1:])
    if argv and argv[0] == '--setup':
        ok = ensure_deps()
        setup_paths()
        import beanquery  # noqa: F401
        import icontract  # noqa: F401
        print('setup ok' if ok else 'setup: deps missing')
        return 0 if ok else 1
    ap = argparse.ArgumentParser()
    ap.add_argument('prop')
    ap.add_argument('--tier', default=os.environ.get('VERIF_TIER', 'quick'), choices=['quick', 'thorough'])
    ap.add_argument('--seed', type=int, default=int(os.environ.get('VERIF_SEED', '0')))
    ap.add_argument('--replay')
    a = ap.parse_args(argv)
    return run_property(a.prop.upper(), a.tier, a.seed, a.replay)

"""Workload generators: typed tables (G1), typed expressions (G2), statements (G3).

The operator/function specification table below is written from the property
text (it is NOT read from beanquery's registries).
"""
import datetime
import itertools
from decimal import Decimal

from . import ir
from .ir import (T_INT, T_DEC, T_STR, T_DATE, T_BOOL, T_OBJ, T_NULL, T_LIST)
from .model import ModelTable

D = Decimal
date = datetime.date

# ---------------------------------------------------------------------------
# G1 value pools and tables

POOL = {
    # (-1 and -2 have the same Python hash: values that differ but collide)
    T_INT: [0, 1, -1, -2, 2, 3, -3, 7, 10, 100],
    T_DEC: [D('0'), D('0.0'), D('-1'), D('-2'), D('-1.5'), D('1.50'), D('2'), D('1E+2'), D('0.001'), D('1E-8'), D('123456.789'), D('3')],
    T_STR: ['', 'a', 'b', 'A', ' ', '%', 'x1', 'ab', 'ba', 'a b', 'Ab%', 'Cafe\u0301', '\u00e9'],      # (a decomposed and a precomposed accent)
    T_DATE: [date(2020, 1, 1), date(2019, 12, 31), date(2020, 2, 29), date(2020, 3, 31), date(2000, 1, 1),
             date(1999, 12, 31), date(2020, 6, 30), date(2021, 10, 1), date(1900, 1, 1), date(2100, 12, 31)],
    T_BOOL: [True, False],
    T_OBJ: [D('2'), D('-1.5'), '3', '1.50', 'abc', '', date(2020, 1, 1), '2020-02-30', '2020-03-01', True, 'a'],
}

# literal pools: values that print as BQL literals and parse back exactly
LITS = {
    T_INT: [0, 1, 2, 3, 7, 10, -1, -3],
    T_DEC: [D('0.0'), D('1.50'), D('2.'), D('0.001'), D('-1.5'), D('3.0'), D('123456.789')],
    T_STR: ['', 'a', 'b', 'A', ' ', '%', 'x1', 'ab', '^a', 'b$', 'a|b', '.', '2020-01-01', '1.50', '3', 'Cafe\u0301', '\u00e9',
            # (quote characters of the other kind at the ends of the text: the delimiters alone are removed)
            "'a'", '"', "a'", '"a"', "'"],
    T_DATE: [date(2020, 1, 1), date(2020, 2, 29), date(2019, 12, 31), date(2000, 1, 1), date(2020, 3, 1)],
    T_BOOL: [True, False],
}

# the schema every generated table uses: two columns per type plus a unique row id
SCHEMA = [('k', T_INT), ('i', T_INT), ('j', T_INT), ('d', T_DEC), ('e', T_DEC), ('s', T_STR), ('t', T_STR),
          ('dt', T_DATE), ('du', T_DATE), ('b', T_BOOL), ('c', T_BOOL), ('o', T_OBJ), ('p', T_OBJ)]
COLS_BY_TYPE = {}
for _n, _t in SCHEMA:
    if _n != 'k':
        COLS_BY_TYPE.setdefault(_t, []).append(_n)


def rand_date(rng):
    if rng.random() < 0.6:
        return rng.choice(POOL[T_DATE])
    return date.fromordinal(rng.randint(date(1900, 1, 1).toordinal(), date(2100, 12, 31).toordinal()))


def rand_value(rng, t):
    if t == T_DATE:
        return rand_date(rng)
    if t == T_STR and rng.random() < 0.2:
        return ''.join(rng.choice('abA %x1') for _ in range(rng.randint(0, 4)))
    return rng.choice(POOL[t])


def gen_table(rng, name='t', max_rows=8, schema=SCHEMA, ties=False):
    """Random table. ties=True draws from 2-3 values per column (heavy ties, for ordering)."""
    nrows = rng.choice([0, 1, 2, 3, 5, max_rows]) if max_rows <= 8 else rng.randint(0, max_rows)
    if ties:
        nrows = rng.randint(2, max_rows)
    if rng.random() < 0.03:
        # once in a while a table well beyond the usual size: long scans, many groups, many ties
        nrows = rng.randint(60, 220)
    nullp = {n: rng.choice([0, 0.2, 0.2, 0.6, 1.0] if not ties else [0, 0.2, 0.3]) for n, _ in schema}
    rows = []
    for r in range(nrows):
        if rows and rng.random() < 0.25:
            # forced duplicate of an earlier row (apart from the row id)
            base = list(rng.choice(rows))
            base[0] = r
            rows.append(tuple(base))
            continue
        row = []
        for n, t in schema:
            if n == 'k':
                row.append(r)
            elif rng.random() < nullp[n]:
                row.append(None)
            elif ties:
                row.append(rng.choice(POOL[t][:4] if t != T_DEC else [D('1.0'), D('1.00'), D('-1'), D('-2')]))
            else:
                row.append(rand_value(rng, t))
        rows.append(tuple(row))
    return ModelTable(name, schema, rows)


def table_digest(mt):
    from .core import stable_hash
    return stable_hash(mt.name, mt.columns, [tuple(map(repr, r)) for r in mt.rows])[:12]


# ---------------------------------------------------------------------------
# operator specification (from the property text)

ARITH = ('add', 'sub', 'mul', 'div', 'mod')
CMPS = ('eq', 'ne', 'gt', 'ge', 'lt', 'le')

BIN = []   # (op, left type, right type, result type)
for _op in ('add', 'sub', 'mul'):
    BIN += [(_op, T_INT, T_INT, T_INT), (_op, T_DEC, T_INT, T_DEC), (_op, T_INT, T_DEC, T_DEC), (_op, T_DEC, T_DEC, T_DEC)]
BIN += [('div', a, b, T_DEC) for a in (T_INT, T_DEC) for b in (T_INT, T_DEC)]       # int/int division is decimal
BIN += [('mod', T_INT, T_INT, T_INT), ('mod', T_DEC, T_INT, T_DEC), ('mod', T_INT, T_DEC, T_DEC), ('mod', T_DEC, T_DEC, T_DEC)]
BIN += [('add', T_DATE, T_INT, T_DATE), ('add', T_INT, T_DATE, T_DATE), ('sub', T_DATE, T_INT, T_DATE), ('sub', T_DATE, T_DATE, T_INT)]
for _op in CMPS:
    BIN += [(_op, a, b, T_BOOL) for a in (T_INT, T_DEC) for b in (T_INT, T_DEC)]
    BIN += [(_op, T_DATE, T_DATE, T_BOOL), (_op, T_STR, T_STR, T_BOOL)]
BIN += [('match', T_STR, T_STR, T_BOOL), ('notmatch', T_STR, T_STR, T_BOOL)]
_BASE = {(op, a, b): r for op, a, b, r in BIN}
# implicit cast of an untyped (object) operand to the type of the other operand, int -> decimal
BIN_OBJ = []
for (_op, _a, _b), _r in list(_BASE.items()):
    pass
for _op in set(op for op, *_ in BIN):
    for _t in (T_INT, T_DEC, T_STR, T_DATE):
        _c = T_DEC if _t == T_INT else _t
        if (_op, _c, _t) in _BASE:
            BIN_OBJ.append((_op, T_OBJ, _t, _BASE[(_op, _c, _t)]))
        if (_op, _t, _c) in _BASE:
            BIN_OBJ.append((_op, _t, T_OBJ, _BASE[(_op, _t, _c)]))
BIN_OBJ.sort()
BIN_ALL = BIN + BIN_OBJ

UN = [('neg', T_INT, T_INT), ('neg', T_DEC, T_DEC)]
ANY_TYPES = (T_INT, T_DEC, T_STR, T_DATE, T_BOOL, T_OBJ)
UN_ANY = [(op, t, T_BOOL) for op in ('not', 'isnull', 'isnotnull') for t in ANY_TYPES]

BETWEEN = [(a, b, c) for a in (T_INT, T_DEC) for b in (T_INT, T_DEC) for c in (T_INT, T_DEC)]
BETWEEN += [(T_DATE,) * 3, (T_STR,) * 3]

# total scalar functions: (name, argument types, result type)
# 'small' marks integer arguments that must stay small (days, digits, widths)
SMALL = 'small'
DIGITS = 'digits'      # number of digits for round(): a small literal (round(x, 100) overflows the decimal context)
UNIT = 'unit'
FUNCS = [
    ('abs', (T_DEC,), T_DEC), ('neg', (T_DEC,), T_DEC),
    ('round', (T_DEC,), T_DEC), ('round', (T_DEC, DIGITS), T_DEC), ('round', (T_INT,), T_INT), ('round', (T_INT, DIGITS), T_INT),
    ('safediv', (T_DEC, T_DEC), T_DEC), ('safediv', (T_DEC, T_INT), T_DEC),
    ('length', (T_STR,), T_INT), ('upper', (T_STR,), T_STR), ('lower', (T_STR,), T_STR),
    ('substr', (T_STR, SMALL, SMALL), T_STR),
    ('str', (T_INT,), T_STR), ('str', (T_DEC,), T_STR), ('str', (T_STR,), T_STR), ('str', (T_DATE,), T_STR),
    ('str', (T_BOOL,), T_STR), ('str', (T_OBJ,), T_STR),
    ('bool', (T_INT,), T_BOOL), ('bool', (T_DEC,), T_BOOL), ('bool', (T_STR,), T_BOOL), ('bool', (T_BOOL,), T_BOOL), ('bool', (T_OBJ,), T_BOOL),
    ('int', (T_INT,), T_INT), ('int', (T_BOOL,), T_INT), ('int', (T_DEC,), T_INT), ('int', (T_STR,), T_INT), ('int', (T_OBJ,), T_INT),
    ('decimal', (T_DEC,), T_DEC), ('decimal', (T_INT,), T_DEC), ('decimal', (T_BOOL,), T_DEC), ('decimal', (T_STR,), T_DEC), ('decimal', (T_OBJ,), T_DEC),
    ('date', (T_DATE,), T_DATE), ('date', (T_STR,), T_DATE), ('date', (T_OBJ,), T_DATE),
    ('year', (T_DATE,), T_INT), ('month', (T_DATE,), T_INT), ('day', (T_DATE,), T_INT),
    ('yearmonth', (T_DATE,), T_DATE), ('quarter', (T_DATE,), T_STR), ('weekday', (T_DATE,), T_STR),
    ('date_add', (T_DATE, SMALL), T_DATE), ('date_diff', (T_DATE, T_DATE), T_INT),
    ('date_trunc', (UNIT, T_DATE), T_DATE), ('date_part', (UNIT, T_DATE), T_INT),
]
UNITS = ['week', 'month', 'quarter', 'year', 'decade', 'century', 'millennium']
PART_UNITS = ['weekday', 'dow', 'isoweekday', 'isodow', 'week', 'month', 'quarter', 'year', 'isoyear', 'decade',
              'century', 'millennium', 'epoch']


def overload_name(kind, op, types):
    return f"{kind}:{op}({','.join(types)})"


# ---------------------------------------------------------------------------
# G2 expression generator

class ExprGen:
    def __init__(self, rng, cols_by_type=None, max_depth=4, allow_params=False, obj=True):
        self.rng = rng
        self.cols = cols_by_type or COLS_BY_TYPE
        self.max_depth = max_depth
        self.allow_params = allow_params
        self.obj = obj and T_OBJ in self.cols
        self.by_result = {}
        for op, a, b, r in (BIN_ALL if self.obj else BIN):
            self.by_result.setdefault(r, []).append(('bin', op, a, b))
        for op, a, r in UN:
            self.by_result.setdefault(r, []).append(('un', op, a))
        for name, args, r in FUNCS:
            if not self.obj and T_OBJ in args:
                continue
            self.by_result.setdefault(r, []).append(('func', name, args))

    def leaf(self, t, lit_ok=True):
        rng = self.rng
        if t == T_OBJ:
            return ir.col(rng.choice(self.cols[T_OBJ]), T_OBJ)
        r = rng.random()
        if t in self.cols and (r < 0.7 or not lit_ok):
            return ir.col(rng.choice(self.cols[t]), t)
        v = rng.choice(LITS[t])
        if self.allow_params and rng.random() < 0.5:
            return ir.param(v, type=t)
        return ir.lit(v, t)

    def small_int(self):
        rng = self.rng
        r = rng.random()
        if r < 0.5:
            return ir.lit(rng.choice([0, 1, 2, 3, 5, 7, -1, -2]), T_INT)
        if r < 0.8 and T_INT in self.cols:
            return ir.col(rng.choice(self.cols[T_INT]), T_INT)
        return ir.un('neg', ir.lit(rng.choice([1, 2, 4]), T_INT), T_INT)

    def expr(self, t, depth=None):
        rng = self.rng
        if depth is None:
            depth = rng.randint(1, self.max_depth)
        if depth <= 1:
            return self.leaf(t)
        if t == T_BOOL:
            return self.bool_expr(depth)
        if t == T_OBJ:
            if rng.random() < 0.3:
                return ir.func('coalesce', [self.leaf(T_OBJ), self.leaf(T_OBJ)], T_OBJ)
            return self.leaf(T_OBJ)
        prods = self.by_result.get(t, [])
        if not prods or rng.random() < 0.1:
            if rng.random() < 0.5:
                n = rng.randint(1, 3)
                return ir.func('coalesce', [self.expr(t, depth - 1) for _ in range(n)], t)
            return self.leaf(t)
        return self.build(rng.choice(prods), t, depth)

    def arg(self, t, depth):
        if t == SMALL:
            return self.small_int()
        if t == DIGITS:
            v = self.rng.choice([0, 1, 2, 3, 6, -1, -2])
            return ir.lit(v, T_INT) if v >= 0 else ir.un('neg', ir.lit(-v, T_INT), T_INT)
        if t == UNIT:
            return ir.lit(self.rng.choice(UNITS + PART_UNITS + ['bogus']), T_STR)
        return self.expr(t, depth)

    def build(self, prod, t, depth):
        rng = self.rng
        if prod[0] == 'bin':
            _, op, a, b = prod
            if T_DATE in (a, b) and T_INT in (a, b) and t == T_DATE:
                # date +/- int: keep the day count small
                l = self.small_int() if a == T_INT else self.expr(a, depth - 1)
                r = self.small_int() if b == T_INT else self.expr(b, depth - 1)
            else:
                l = self.expr(a, depth - 1)
                r = self.expr(b, depth - 1)
            return ir.bin_(op, l, r, t)
        if prod[0] == 'un':
            _, op, a = prod
            return ir.un(op, self.expr(a, depth - 1), t)
        _, name, args = prod
        return ir.func(name, [self.arg(a, depth - 1) for a in args], t)

    def bool_expr(self, depth):
        rng = self.rng
        r = rng.random()
        if r < 0.22:
            n = rng.choice([2, 2, 3, 4])
            args = [self.bool_arg(depth - 1) for _ in range(n)]
            return ir.and_(*args) if rng.random() < 0.5 else ir.or_(*args)
        if r < 0.30:
            return ir.un('not', self.bool_arg(depth - 1), T_BOOL)
        if r < 0.40:
            t = rng.choice(ANY_TYPES if self.obj else ANY_TYPES[:-1])
            return ir.un(rng.choice(['isnull', 'isnotnull']), self.expr(t, depth - 1), T_BOOL)
        if r < 0.50:
            a, b, c = rng.choice(BETWEEN)
            return ir.between(self.expr(a, depth - 1), self.expr(b, depth - 1), self.expr(c, depth - 1))
        if r < 0.60:
            t = rng.choice([T_INT, T_DEC, T_STR, T_DATE])
            x = self.expr(t, depth - 1)
            pool = LITS[t] + (LITS[T_INT] if t == T_DEC else LITS[T_DEC] if t == T_INT else [])
            # list literals hold plain literals only: no sign
            pool = [v for v in pool if not (isinstance(v, (int, Decimal)) and v < 0)]
            n = rng.randint(1, 4)
            lst = ir.lit([rng.choice(pool) for _ in range(n)], T_LIST)
            return ir.bin_(rng.choice(['in', 'notin']), x, lst, T_BOOL)
        prods = self.by_result[T_BOOL]
        return self.build(rng.choice(prods), T_BOOL, depth)

    def bool_arg(self, depth):
        if self.rng.random() < 0.06:
            return ir.null()
        return self.expr(T_BOOL, depth)


# ---------------------------------------------------------------------------
# systematic depth-1 enumeration

def systematic_table(lt, rt=None, third=None, name='sys'):
    """Rows = cross product of the value pools (plus NULL) of the operand types."""
    types = [t for t in (lt, rt, third) if t is not None]
    pools = []
    for t in types:
        pool = list(POOL[t])
        if len(types) == 3:
            pool = pool[:4]
        elif len(types) == 2:
            pool = pool[:8]
        pools.append([None] + pool)
    cols = [('k', T_INT)] + [(f'x{i}', t) for i, t in enumerate(types)]
    rows = [(n, *vals) for n, vals in enumerate(itertools.product(*pools))]
    return ModelTable(name, cols, rows)


# ---------------------------------------------------------------------------
# G3 statement shapes

KEY_TYPES = [T_INT, T_DEC, T_STR, T_DATE, T_BOOL]
ORDERABLE = [T_INT, T_DEC, T_STR, T_DATE, T_BOOL]


class QueryGen:
    """Random SELECT statements over the harness schema."""

    def __init__(self, rng, max_depth=3, table='t', obj_keys=True, subselects=0.0):
        self.rng = rng
        self.subselects = subselects     # probability that a WHERE condition involves an IN (SELECT ...) membership
        self.table = table
        self.g = ExprGen(rng, max_depth=max_depth)
        self.obj_keys = obj_keys
        self._ag = None

    # -- pieces
    def key_expr(self):
        rng = self.rng
        t = rng.choice(KEY_TYPES + ([T_OBJ] if self.obj_keys and rng.random() < 0.15 else []))
        if t == T_OBJ or rng.random() < 0.6:
            return ir.col(rng.choice(COLS_BY_TYPE[t]), t)
        return self.g.expr(t, rng.randint(2, 3))

    def agg_call(self):
        rng = self.rng
        r = rng.random()
        if r < 0.2:
            return ir.agg('count', [], T_INT)
        if r < 0.35:
            t = rng.choice(ANY_TYPES)
            return ir.agg('count', [self.g.expr(t, rng.randint(1, 2))], T_INT)
        if r < 0.6:
            t = rng.choice([T_INT, T_DEC, T_INT, T_DEC, T_BOOL])
            # sum over a boolean argument counts the TRUE values: an int, from the int zero
            return ir.agg('sum', [self.g.expr(t, rng.randint(1, 3))], T_INT if t == T_BOOL else t)
        name = rng.choice(['min', 'max', 'first', 'last'])
        t = rng.choice(ORDERABLE)
        return ir.agg(name, [self.g.expr(t, rng.randint(1, 2))], t)

    def agg_call_of(self, t):
        """An aggregate call of result type t."""
        rng = self.rng
        if t == T_INT and rng.random() < 0.4:
            if rng.random() < 0.5:
                return ir.agg('count', [], T_INT)
            return ir.agg('count', [self.g.expr(rng.choice(ANY_TYPES), rng.randint(1, 2))], T_INT)
        if t in NUMERIC_T and rng.random() < 0.5:
            return ir.agg('sum', [self.g.expr(t, rng.randint(1, 2))], t)
        return ir.agg(rng.choice(['min', 'max', 'first', 'last']), [self.g.expr(t, rng.randint(1, 2))], t)

    def rich_agg_expr(self, t=None):
        """Any operator / function tree whose leaves are aggregate calls and literals (never bare columns)."""
        rng = self.rng
        if self._ag is None:
            outer = self

            class _AggLeaves(ExprGen):
                def leaf(self, t, lit_ok=True):
                    if t in ORDERABLE and (self.rng.random() < 0.7 or not lit_ok):
                        return outer.agg_call_of(t)
                    return ir.lit(self.rng.choice(LITS[t]), t)

                def small_int(self):
                    v = self.rng.choice([0, 1, 2, 3, 5, 7, -1, -2])
                    return ir.lit(v, T_INT) if v >= 0 else ir.un('neg', ir.lit(-v, T_INT), T_INT)
            self._ag = _AggLeaves(rng, max_depth=3, obj=False)
        for _ in range(20):
            e = self._ag.expr(t or rng.choice(ORDERABLE), rng.randint(2, 3))
            if e.has_agg():
                return e
        return self.agg_call()

    def agg_expr(self):
        """An aggregate, or arithmetic over aggregates and constants."""
        rng = self.rng
        if rng.random() < 0.25:
            return self.rich_agg_expr()
        a = self.agg_call()
        r = rng.random()
        if r < 0.7:
            return a
        if a.type in NUMERIC_T:
            b = self.agg_call()
            if b.type in NUMERIC_T and rng.random() < 0.6:
                op = rng.choice(['add', 'sub', 'mul', 'div'])
                return ir.bin_(op, a, b, _BASE[(op, a.type, b.type)])
            lit_t = rng.choice([T_INT, T_DEC])
            op = rng.choice(['add', 'mul', 'div', 'sub'])
            return ir.bin_(op, a, ir.lit(rng.choice([v for v in LITS[lit_t] if v >= 0]), lit_t), _BASE[(op, a.type, lit_t)])
        if rng.random() < 0.5:
            return ir.un('isnull', a, T_BOOL)
        return ir.func('coalesce', [a, ir.lit(LITS[a.type][0], a.type)], a.type) if a.type in LITS else a

    def having_expr(self):
        rng = self.rng
        r = rng.random()
        if r < 0.4:
            return ir.bin_(rng.choice(['gt', 'ge', 'lt', 'eq', 'ne']), ir.agg('count', [], T_INT), ir.lit(rng.choice([0, 1, 2, 3]), T_INT), T_BOOL)
        if r < 0.7:
            a = ir.agg(rng.choice(['sum', 'min', 'max', 'first', 'last']), [ir.col(rng.choice(['i', 'j']), T_INT)], T_INT)
            return ir.bin_(rng.choice(['gt', 'le', 'ne']), a, ir.lit(rng.choice([0, 1, 2, 7]), T_INT), T_BOOL)
        if r < 0.85:
            a = self.agg_call()
            return ir.un(rng.choice(['isnull', 'isnotnull']), a, T_BOOL)
        return ir.and_(ir.bin_('ge', ir.agg('count', [], T_INT), ir.lit(1, T_INT), T_BOOL),
                       ir.bin_('lt', ir.agg('max', [ir.col('d', T_DEC)], T_DEC), ir.lit(D('2.'), T_DEC), T_BOOL))

    def membership(self, name=None, table_mode=None):
        """x IN / NOT IN (SELECT col [AS name] [FROM #table] [WHERE cond]): the sub-select either names its table or,
        having no FROM clause, reads the table of the enclosing statement. `name`: output name wanted for the
        sub-select's only target (a column of that name if there is one, else an alias)."""
        rng = self.rng
        types = {n: t for n, t in SCHEMA}
        if name is not None and name in types and types[name] in (T_INT, T_DEC, T_STR, T_DATE):
            cname, ctype, alias = name, types[name], None
        else:
            ctype = rng.choice([T_INT, T_DEC, T_STR, T_DATE])
            cname = rng.choice(COLS_BY_TYPE[ctype])
            alias = name if name is not None and _ident_ok(name) else None
        sub_where = self.g.expr(T_BOOL, rng.randint(1, 2)) if rng.random() < 0.7 else None
        mode = table_mode or rng.choice(['inherit', 'inherit', 'named'])
        sub = ir.Query(targets=[ir.Target(ir.col(cname, ctype), alias)], table=self.table if mode == 'named' else None, where=sub_where)
        x = ir.col(rng.choice(COLS_BY_TYPE[ctype]), ctype) if rng.random() < 0.7 else self.g.expr(ctype, 2)
        return ir.bin_(rng.choice(['in', 'in', 'notin']), x, ir.subq(sub), T_BOOL)

    def where(self, p=0.5):
        w = self.g.expr(T_BOOL, self.rng.randint(1, 3)) if self.rng.random() < p else None
        if self.subselects and self.rng.random() < self.subselects:
            m = self.membership()
            w = m if w is None else (ir.and_(w, m) if self.rng.random() < 0.5 else ir.or_(m, w))
        return w

    # -- statements
    def simple(self, with_k=True):
        rng = self.rng
        targets = [ir.Target(ir.col('k', T_INT))] if with_k else []
        used = {'k'} if with_k else set()
        for i in range(rng.randint(1, 4) if rng.random() > 0.05 else rng.randint(9, 16)):
            t = rng.choice(ANY_TYPES)
            e = self.g.expr(t, rng.randint(1, 3))
            alias = f'c{i}' if rng.random() < 0.5 else None
            name = ir.target_name(ir.Target(e, alias))
            targets.append(ir.Target(e, alias))
            used.add(name)
        return ir.Query(targets=targets, table=self.table, where=self.where())

    def aggregate(self):
        """Aggregate SELECT: keys by expression / name / position, visible or hidden,
        explicit or implicit; 1-3 aggregate targets; optional HAVING."""
        rng = self.rng
        wide = rng.random() < 0.06          # now and then a statement with 9-16 targets
        nkeys = rng.choice([0, 1, 1, 1, 2, 2, 3]) if not wide else rng.choice([2, 3, 4])
        keys = [self.key_expr() for _ in range(nkeys)]
        # drop structurally equal duplicates
        uniq = []
        for k in keys:
            if all(k.key() != u.key() for u in uniq):
                uniq.append(k)
        keys = uniq
        explicit = rng.random() < 0.75 or not keys
        visible = [True] * len(keys) if not explicit else [rng.random() < 0.7 for _ in keys]
        # now and then a grouping without any aggregate: one row per group all the same, whether or not the keys are shown
        bare = bool(explicit and keys and not wide and rng.random() < 0.08)
        if bare and not any(visible):
            visible[rng.randrange(len(visible))] = True
        targets = []
        key_pos = {}
        for i, (k, vis) in enumerate(zip(keys, visible)):
            if vis:
                alias = f'g{i}' if rng.random() < 0.5 else None
                targets.append(ir.Target(k, alias))
        aggs = [] if bare else [self.agg_expr() for _ in range(rng.randint(1, 3) if not wide else rng.randint(7, 12))]
        for i, a in enumerate(aggs):
            targets.append(ir.Target(a, f'a{i}' if rng.random() < 0.6 else None))
        having = None
        if explicit and keys and rng.random() < 0.4:
            r = rng.random()
            if r < 0.3 and aggs:
                # the condition is (built from) one of the aggregate targets: the very same expression twice in the statement
                a = rng.choice(aggs)
                if a.type == T_BOOL or rng.random() < 0.3:
                    having = a
                elif a.type in NUMERIC_T:
                    having = ir.bin_(rng.choice(['gt', 'le', 'ne']), a, ir.lit(rng.choice([0, 1, 2]), T_INT), T_BOOL)
                else:
                    having = ir.un(rng.choice(['isnull', 'isnotnull']), a, T_BOOL)
            else:
                having = self.having_expr()
            if rng.random() < 0.25:
                # ... and the condition itself is shown as a column
                targets.append(ir.Target(having, 'hv' if rng.random() < 0.6 else None))
        # shuffle target order, keeping track of key positions
        rng.shuffle(targets)
        names = [ir.target_name(t) for t in targets]
        group_by = None
        if explicit and keys:
            group_by = []
            for k, vis in zip(keys, visible):
                idxs = [i for i, t in enumerate(targets) if t.expr is k]
                if vis and idxs:
                    r = rng.random()
                    name = names[idxs[0]]
                    unique_name = names.count(name) == 1 and _ident_ok(name)
                    if r < 0.35:
                        group_by.append(ir.Key('index', idxs[0] + 1))
                    elif r < 0.7 and unique_name and (targets[idxs[0]].alias is not None or k.kind == 'col'):
                        group_by.append(ir.Key('name', name))
                    else:
                        group_by.append(ir.Key('expr', k))
                else:
                    group_by.append(ir.Key('expr', k))
            rng.shuffle(group_by)
            if rng.random() < 0.15:
                # the same key referenced twice (by position and by name/expression, or simply repeated)
                k = rng.choice(group_by)
                dup = ir.Key(k.kind, k.value)
                if k.kind == 'index' and rng.random() < 0.6:
                    dup = ir.Key('expr', targets[k.value - 1].expr)
                group_by.insert(rng.randrange(len(group_by) + 1), dup)
        return ir.Query(targets=targets, table=self.table, where=self.where(0.4), group_by=group_by, having=having)

    def order_keys(self, q, nmax=4, aggregate=False):
        """ORDER BY keys for q: by index, name or expression; visible or hidden."""
        rng = self.rng
        names = [ir.target_name(t) for t in q.targets]
        keys = []
        for _ in range(rng.randint(1, nmax)):
            r = rng.random()
            desc = rng.choice([None, False, True, True])
            cand = [i for i, t in enumerate(q.targets) if t.expr.type in ORDERABLE]
            if r < 0.3 and cand:
                keys.append(ir.Key('index', rng.choice(cand) + 1, desc))
            elif r < 0.55 and cand:
                i = rng.choice(cand)
                if names.count(names[i]) == 1 and _ident_ok(names[i]):
                    keys.append(ir.Key('name', names[i], desc))
                else:
                    keys.append(ir.Key('index', i + 1, desc))
            elif aggregate:
                # a new aggregate expression, or one of the grouping expressions
                gk = [t.expr for t in q.targets if not t.expr.has_agg() and t.expr.type in ORDERABLE]
                if gk and rng.random() < 0.4:
                    keys.append(ir.Key('expr', rng.choice(gk), desc))
                else:
                    a = self.agg_call()
                    if a.type in ORDERABLE:
                        keys.append(ir.Key('expr', a, desc))
            else:
                t = rng.choice(ORDERABLE)
                e = ir.col(rng.choice(COLS_BY_TYPE[t]), t) if rng.random() < 0.6 else self.g.expr(t, rng.randint(2, 3))
                keys.append(ir.Key('expr', e, desc))
        return keys or None


NUMERIC_T = (T_INT, T_DEC)
RESERVED = {'and', 'as', 'asc', 'by', 'desc', 'distinct', 'false', 'from', 'group', 'having', 'in', 'is', 'limit',
            'not', 'or', 'order', 'pivot', 'select', 'true', 'where', 'balances', 'journal', 'print', 'null',
            'open', 'close', 'clear', 'on', 'between', 'at'}


def _ident_ok(name):
    import re
    return bool(re.fullmatch(r'[a-z_][a-z0-9_]*', name)) and name not in RESERVED

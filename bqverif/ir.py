"""Typed intermediate representation of BQL statements used by the harness.

The IR is the harness's own source of truth: generators build IR, the reference
model evaluates IR, the printer writes IR as BQL text, and to_ast() builds the
corresponding beanquery AST directly (without parse positions).
"""
import datetime
import random
from decimal import Decimal

# ---------------------------------------------------------------------------
# types

T_INT, T_DEC, T_STR, T_DATE, T_BOOL, T_OBJ = 'int', 'dec', 'str', 'date', 'bool', 'obj'
T_SET, T_LIST, T_INTERVAL, T_NULL = 'set', 'list', 'interval', 'null'
T_AMOUNT, T_POSITION, T_INVENTORY, T_DICT = 'amount', 'position', 'inventory', 'dict'

NUMERIC = (T_INT, T_DEC)


def pytype(t):
    from dateutil.relativedelta import relativedelta
    from beancount.core import amount, position, inventory
    return {
        T_INT: int, T_DEC: Decimal, T_STR: str, T_DATE: datetime.date, T_BOOL: bool, T_OBJ: object,
        T_SET: set, T_LIST: list, T_INTERVAL: relativedelta, T_NULL: type(None),
        T_AMOUNT: amount.Amount, T_POSITION: position.Position, T_INVENTORY: inventory.Inventory,
        T_DICT: dict,
    }[t]


class E:
    """Expression node."""
    __slots__ = ('kind', 'type', 'op', 'args', 'value', 'name', 'q')

    def __init__(self, kind, type=None, op=None, args=(), value=None, name=None, q=None):
        self.kind = kind
        self.type = type
        self.op = op
        self.args = list(args)
        self.value = value
        self.name = name
        self.q = q

    def walk(self):
        yield self
        for a in self.args:
            yield from a.walk()

    def key(self):
        """Canonical structural key (hashable)."""
        v = self.value
        if isinstance(v, Decimal):
            v = ('D', str(v))
        elif isinstance(v, list):
            v = tuple(('D', str(x)) if isinstance(x, Decimal) else (type(x).__name__, x) for x in v)
        elif v is not None:
            v = (type(v).__name__, v)
        return (self.kind, self.type, self.op, v, self.name,
                self.q.key() if self.q is not None else None,
                tuple(a.key() for a in self.args))

    def __repr__(self):
        return to_text_expr(self)

    def has_agg(self):
        return any(n.kind == 'agg' for n in self.walk())

    def has_col_outside_agg(self):
        if self.kind == 'agg':
            return False
        if self.kind == 'col':
            return True
        return any(a.has_col_outside_agg() for a in self.args)

    def depth(self):
        return 1 + max((a.depth() for a in self.args), default=0)


def col(name, type):
    return E('col', type, name=name)


def lit(value, type=None):
    if type is None:
        type = type_of_value(value)
    return E('lit', type, value=value)


def null():
    return E('lit', T_NULL, value=None)


def param(value, name=None, type=None):
    """Placeholder: name None = positional %s, else %(name)s."""
    return E('param', type or type_of_value(value), value=value, name=name)


def un(op, x, type):
    return E('un', type, op=op, args=[x])


def bin_(op, l, r, type):
    return E('bin', type, op=op, args=[l, r])


def between(x, lo, hi):
    return E('between', T_BOOL, args=[x, lo, hi])


def and_(*args):
    return E('and', T_BOOL, args=args)


def or_(*args):
    return E('or', T_BOOL, args=args)


def func(name, args, type):
    return E('func', type, name=name, args=args)


def agg(name, args, type):
    """Aggregate call; count(*) has args == [] and value '*'."""
    return E('agg', type, name=name, args=args, value='*' if not args else None)


def attr(x, name, type):
    return E('attr', type, name=name, args=[x])


def subscript(x, key, type=T_OBJ):
    return E('sub', type, name=key, args=[x])


def subq(q):
    return E('subq', T_LIST, q=q)


def type_of_value(v):
    if v is None:
        return T_NULL
    if isinstance(v, bool):
        return T_BOOL
    if isinstance(v, int):
        return T_INT
    if isinstance(v, Decimal):
        return T_DEC
    if isinstance(v, str):
        return T_STR
    if isinstance(v, datetime.date):
        return T_DATE
    if isinstance(v, list):
        return T_LIST
    if isinstance(v, (set, frozenset)):
        return T_SET
    raise ValueError(v)


# ---------------------------------------------------------------------------
# statements

class Target:
    __slots__ = ('expr', 'alias')

    def __init__(self, expr, alias=None):
        self.expr = expr
        self.alias = alias


class Key:
    """GROUP BY / ORDER BY / PIVOT BY reference: kind 'index' (1-based), 'name' or 'expr'."""
    __slots__ = ('kind', 'value', 'desc')

    def __init__(self, kind, value, desc=None):
        self.kind = kind
        self.value = value
        self.desc = desc  # None (unspecified -> ASC), False (ASC), True (DESC)

    def key(self):
        return (self.kind, self.value.key() if isinstance(self.value, E) else self.value, self.desc)


class From:
    """FROM expression form."""
    __slots__ = ('expr', 'open', 'close', 'clear')

    def __init__(self, expr=None, open=None, close=None, clear=None):
        self.expr = expr
        self.open = open
        self.close = close  # None, True or a date
        self.clear = clear

    def key(self):
        return ('from', self.expr.key() if self.expr is not None else None, self.open, self.close, self.clear)


class Query:
    """SELECT statement."""
    __slots__ = ('targets', 'star', 'table', 'subquery', 'from_', 'where', 'group_by', 'having',
                 'order_by', 'pivot_by', 'limit', 'distinct')

    def __init__(self, targets=None, star=False, table=None, subquery=None, from_=None, where=None,
                 group_by=None, having=None, order_by=None, pivot_by=None, limit=None, distinct=False):
        self.targets = targets or []
        self.star = star
        self.table = table          # table name (without '#') or None
        self.subquery = subquery    # Query or None
        self.from_ = from_          # From or None
        self.where = where
        self.group_by = group_by    # list of Key or None
        self.having = having
        self.order_by = order_by    # list of Key or None
        self.pivot_by = pivot_by    # list of two Key or None
        self.limit = limit
        self.distinct = distinct

    def key(self):
        return ('select',
                tuple((t.expr.key(), t.alias) for t in self.targets), self.star, self.table,
                self.subquery.key() if self.subquery else None,
                self.from_.key() if self.from_ else None,
                self.where.key() if self.where is not None else None,
                tuple(k.key() for k in self.group_by) if self.group_by else None,
                self.having.key() if self.having is not None else None,
                tuple(k.key() for k in self.order_by) if self.order_by else None,
                tuple(k.key() for k in self.pivot_by) if self.pivot_by else None,
                self.limit, self.distinct)

    def exprs(self):
        for t in self.targets:
            yield t.expr
        if self.where is not None:
            yield self.where
        if self.from_ is not None and self.from_.expr is not None:
            yield self.from_.expr
        for lst in (self.group_by, self.order_by):
            for k in lst or ():
                if k.kind == 'expr':
                    yield k.value
        if self.having is not None:
            yield self.having

    def params(self):
        """Placeholders in textual order (the printer's order)."""
        out = []
        for e in self._text_order_exprs():
            for n in e.walk():
                if n.kind == 'param':
                    out.append(n)
                if n.kind == 'subq':
                    out.extend(n.q.params())
        return out

    def _text_order_exprs(self):
        for t in self.targets:
            yield t.expr
        if self.subquery is not None:
            yield from self.subquery._text_order_exprs()
        if self.from_ is not None and self.from_.expr is not None:
            yield self.from_.expr
        if self.where is not None:
            yield self.where
        for k in self.group_by or ():
            if k.kind == 'expr':
                yield k.value
        if self.having is not None:
            yield self.having
        for k in self.order_by or ():
            if k.kind == 'expr':
                yield k.value

    def __repr__(self):
        return to_text(self)


# ---------------------------------------------------------------------------
# printer

P_OR, P_AND, P_NOT, P_CMP, P_ADD, P_MUL, P_NEG, P_PRIM = 1, 2, 3, 4, 5, 6, 7, 8

BIN_SYMBOL = {
    'mul': '*', 'div': '/', 'mod': '%', 'add': '+', 'sub': '-',
    'eq': '=', 'ne': '!=', 'gt': '>', 'ge': '>=', 'lt': '<', 'le': '<=',
    'match': '~', 'notmatch': '!~', 'in': 'IN', 'notin': 'NOT IN',
}
BIN_PREC = {
    'mul': P_MUL, 'div': P_MUL, 'mod': P_MUL, 'add': P_ADD, 'sub': P_ADD,
    'eq': P_CMP, 'ne': P_CMP, 'gt': P_CMP, 'ge': P_CMP, 'lt': P_CMP, 'le': P_CMP,
    'match': P_CMP, 'notmatch': P_CMP, 'in': P_CMP, 'notin': P_CMP,
}


def prec(e):
    k = e.kind
    if k == 'or':
        return P_OR
    if k == 'and':
        return P_AND
    if k == 'un':
        return {'not': P_NOT, 'neg': P_NEG, 'isnull': P_CMP, 'isnotnull': P_CMP}[e.op]
    if k == 'bin':
        return BIN_PREC[e.op]
    if k == 'between':
        return P_CMP
    return P_PRIM


TIGHT_OK = {'+', '-', '*', '=', '!=', '<', '<=', '>', '>=', '~', '!~'}
import re as _re
_DATE_LIKE = _re.compile(r'\d{4}-\d{2}-\d{2}')


class Style:
    """Printing options (G4)."""

    def __init__(self, rng=None, parens='minimal', case='upper', space='single', comments=False):
        self.rng = rng or random.Random(0)
        self.parens = parens      # minimal | full | random
        self.case = case          # upper | lower | mixed
        self.space = space        # single | random
        self.comments = comments
        self.param_style = 'pyformat'  # pyformat placeholders, or 'literal' to inline values

    def kw(self, word):
        if self.case == 'upper':
            return word
        if self.case == 'lower':
            return word.lower()
        return ''.join(c.upper() if self.rng.random() < 0.5 else c.lower() for c in word)

    def ident(self, name):
        if self.case == 'mixed':
            return ''.join(c.upper() if self.rng.random() < 0.3 else c for c in name)
        return name

    def sp(self):
        if self.space in ('single', 'tight'):
            return ' '
        r = self.rng.random()
        if self.comments and r < 0.15:
            return self.rng.choice([' /* c */ ', ' /* a\n b */ ', ' ; eol\n', '\n/**/\t', ' /** doc **/ ', ' /***/ ', ' /* x **/ ', ' /* * / ** */ ', ' /****/ ', ' /* a */ /* b **/ '])
        return self.rng.choice([' ', '  ', '\t', '\n', ' \n ', ' '])

    def extra_parens(self):
        if self.parens == 'full':
            return True
        if self.parens == 'random':
            return self.rng.random() < 0.3
        return False


MINIMAL = Style()


def lit_text(value, style=MINIMAL):
    if value is None:
        return style.kw('NULL')
    if value is True:
        return style.kw('TRUE')
    if value is False:
        return style.kw('FALSE')
    if isinstance(value, int):
        return ('-' + str(-value)) if value < 0 else str(value)
    if isinstance(value, Decimal):
        s = format(value, 'f')
        if '.' not in s:
            s += '.'
        return s
    if isinstance(value, str):
        if '"' not in value:
            return '"' + value + '"'
        if "'" not in value:
            return "'" + value + "'"
        raise ValueError('string with both quotes')
    if isinstance(value, datetime.date):
        return f'{value.year:04d}-{value.month:02d}-{value.day:02d}'
    if isinstance(value, list):
        if len(value) == 1:
            return '(' + lit_text(value[0], style) + ',)'
        return '(' + ', '.join(lit_text(v, style) for v in value) + ')'
    raise ValueError(value)


def decimal_printable(d):
    """True when lit_text(d) parses back to exactly d (plain notation, exponent <= 0)."""
    return isinstance(d, Decimal) and d.is_finite() and d.as_tuple().exponent <= 0 and not d.is_signed()


def to_text_expr(e, style=MINIMAL, parent_prec=0, side=None, parent=None):
    s = _expr(e, style)
    p = prec(e)
    if _is_negative(e) and (e.kind == 'lit' or style.param_style == 'literal'):
        p = P_NEG   # negative numbers print as '-' applied to a literal
    need = False
    extra_ok = parent is not None
    if parent is not None:
        pk = parent.kind
        if pk in ('or', 'and'):
            # OR args are conjunctions, AND args are inversions
            need = p <= prec(parent)
        elif pk == 'un' and parent.op == 'not':
            need = p < P_NOT
        elif pk == 'un' and parent.op == 'neg':
            need = p < P_NEG          # operand:factor ; unary or parenthesised
        elif pk == 'un':              # IS NULL / IS NOT NULL: operand is a sum
            need = p < P_ADD
        elif pk == 'between':
            need = p < P_ADD
        elif pk == 'bin':
            pp = BIN_PREC[parent.op]
            if pp == P_CMP:
                need = p < P_ADD
            elif pp == P_ADD:
                need = (p < P_ADD) if side == 0 else (p < P_MUL)
            else:  # P_MUL
                need = (p < P_MUL) if side == 0 else (p < P_NEG)
        elif pk in ('attr', 'sub'):
            if p < P_PRIM:
                raise ValueError('attribute/subscript operand must be a primary')
            extra_ok = False
    if need or (extra_ok and style.extra_parens()):
        return '(' + s + ')'
    return s


def _is_negative(e):
    v = e.value
    return isinstance(v, (int, Decimal)) and not isinstance(v, bool) and v < 0


def _expr(e, style):
    k = e.kind
    sp = style.sp
    if k == 'col':
        return style.ident(e.name)
    if k == 'lit':
        return lit_text(e.value, style)
    if k == 'param':
        if style.param_style == 'literal':
            return lit_text(e.value, style)
        return '%s' if e.name is None else f'%({e.name})s'
    if k == 'un':
        x = to_text_expr(e.args[0], style, parent=e)
        if e.op == 'not':
            return style.kw('NOT') + sp() + x
        if e.op == 'neg':
            return '-' + x
        if e.op == 'isnull':
            return x + sp() + style.kw('IS') + sp() + style.kw('NULL')
        if e.op == 'isnotnull':
            return x + sp() + style.kw('IS') + sp() + style.kw('NOT') + sp() + style.kw('NULL')
    if k == 'bin':
        l = to_text_expr(e.args[0], style, parent=e, side=0)
        r = to_text_expr(e.args[1], style, parent=e, side=1)
        sym = BIN_SYMBOL[e.op]
        if sym == 'NOT IN':
            sym = style.kw('NOT') + sp() + style.kw('IN')
        elif sym == 'IN':
            sym = style.kw('IN')
        elif style.space == 'tight' and sym in TIGHT_OK:
            tight = l + sym + r
            # lexical facts a user must respect too: NNNN-NN-NN is a date literal, '--'/'/*' never arise, a sign after an operator is fine
            if not _DATE_LIKE.search(tight[max(0, len(l) - 10):len(l) + len(sym) + 10]) and not (l[-1:] in '+-*/%<>=!~' or r[:1] in '%=*/' or l[-1:] == '.' or (sym == '-' and r[:1] == '-')):
                return tight
        return l + sp() + sym + sp() + r
    if k == 'between':
        x, lo, hi = (to_text_expr(a, style, parent=e) for a in e.args)
        return x + sp() + style.kw('BETWEEN') + sp() + lo + sp() + style.kw('AND') + sp() + hi
    if k in ('and', 'or'):
        word = style.kw('AND' if k == 'and' else 'OR')
        return (sp() + word + sp()).join(to_text_expr(a, style, parent=e) for a in e.args)
    if k == 'func':
        return style.ident(e.name) + '(' + (',' + sp()).join(to_text_expr(a, style, parent=e) for a in e.args) + ')'
    if k == 'agg':
        if e.value == '*':
            return style.ident(e.name) + '(*)'
        return style.ident(e.name) + '(' + (',' + sp()).join(to_text_expr(a, style, parent=e) for a in e.args) + ')'
    if k == 'attr':
        return to_text_expr(e.args[0], style, parent=e) + '.' + style.ident(e.name)
    if k == 'sub':
        return to_text_expr(e.args[0], style, parent=e) + '[' + lit_text(e.name) + ']'
    if k == 'subq':
        return '(' + to_text(e.q, style) + ')'
    raise ValueError(k)


def _key_text(k, style):
    if k.kind == 'index':
        s = str(k.value)
    elif k.kind == 'name':
        s = style.ident(k.value)
    else:
        s = to_text_expr(k.value, style)
        # a key expression that starts with a digit would be read as a position
        if s[:1].isdigit() or k.value.kind == 'lit':
            s = '(' + s + ')'
    if k.desc is True:
        s += style.sp() + style.kw('DESC')
    elif k.desc is False:
        s += style.sp() + style.kw('ASC')
    return s


def from_text(f, style):
    parts = []
    if f.expr is not None:
        parts.append(to_text_expr(f.expr, style))
    if f.open is not None:
        parts.append(style.kw('OPEN') + style.sp() + style.kw('ON') + style.sp() + lit_text(f.open))
    if f.close is not None:
        if f.close is True:
            parts.append(style.kw('CLOSE'))
        else:
            parts.append(style.kw('CLOSE') + style.sp() + style.kw('ON') + style.sp() + lit_text(f.close))
    if f.clear:
        parts.append(style.kw('CLEAR'))
    return style.sp().join(parts)


def to_text(q, style=MINIMAL, target_texts=None):
    """Print a Query. target_texts, when a list, receives the exact substring
    written for each target expression."""
    sp = style.sp
    out = [style.kw('SELECT')]
    if q.distinct:
        out.append(style.kw('DISTINCT'))
    if q.star:
        out.append('*')
    else:
        ts = []
        for t in q.targets:
            s = to_text_expr(t.expr, style, parent=None)
            if target_texts is not None:
                target_texts.append(s)
            # redundant parentheses around the whole target do not belong to the expression
            for _ in range(2):
                if not style.extra_parens():
                    break
                pad = style.sp() if style.space == 'random' else ''
                s = '(' + pad + s + pad + ')'
            if t.alias is not None:
                s += sp() + style.kw('AS') + sp() + style.ident(t.alias)
            ts.append(s)
        out.append((',' + sp()).join(ts))
    if q.table is not None:
        out.append(style.kw('FROM') + sp() + '#' + q.table)
    elif q.subquery is not None:
        out.append(style.kw('FROM') + sp() + '(' + to_text(q.subquery, style) + ')')
    elif q.from_ is not None:
        out.append(style.kw('FROM') + sp() + from_text(q.from_, style))
    if q.where is not None:
        out.append(style.kw('WHERE') + sp() + to_text_expr(q.where, style))
    if q.group_by:
        s = style.kw('GROUP') + sp() + style.kw('BY') + sp() + (',' + sp()).join(_key_text(k, style) for k in q.group_by)
        if q.having is not None:
            s += sp() + style.kw('HAVING') + sp() + to_text_expr(q.having, style)
        out.append(s)
    if q.order_by:
        out.append(style.kw('ORDER') + sp() + style.kw('BY') + sp() + (',' + sp()).join(_key_text(k, style) for k in q.order_by))
    if q.pivot_by:
        out.append(style.kw('PIVOT') + sp() + style.kw('BY') + sp() + (',' + sp()).join(_key_text(k, style) for k in q.pivot_by))
    if q.limit is not None:
        out.append(style.kw('LIMIT') + sp() + str(q.limit))
    return sp().join(out)


# ---------------------------------------------------------------------------
# beanquery AST construction

_UN = {'not': 'Not', 'neg': 'Neg', 'isnull': 'IsNull', 'isnotnull': 'IsNotNull'}
_BIN = {'mul': 'Mul', 'div': 'Div', 'mod': 'Mod', 'add': 'Add', 'sub': 'Sub',
        'eq': 'Equal', 'ne': 'NotEqual', 'gt': 'Greater', 'ge': 'GreaterEq', 'lt': 'Less', 'le': 'LessEq',
        'match': 'Match', 'notmatch': 'NotMatch', 'in': 'In', 'notin': 'NotIn'}


AST_PLACEHOLDERS = False


def const_ast(v):
    """AST of a literal value the way the parser builds it: negative numbers are Neg(Constant)."""
    from beanquery.parser import ast
    if isinstance(v, (int, Decimal)) and not isinstance(v, bool) and v < 0:
        return ast.Neg(ast.Constant(-v))
    if isinstance(v, list):
        return ast.Constant(list(v))
    return ast.Constant(v)


def to_ast_expr(e, params=None):
    from beanquery.parser import ast
    k = e.kind
    if k == 'col':
        return ast.Column(e.name)
    if k == 'lit':
        return const_ast(e.value)
    if k == 'param':
        if AST_PLACEHOLDERS:
            return ast.Placeholder('' if e.name is None else e.name)
        # AST route: inline the value (placeholders need parse positions)
        return const_ast(e.value)
    if k == 'un':
        return getattr(ast, _UN[e.op])(to_ast_expr(e.args[0]))
    if k == 'bin':
        return getattr(ast, _BIN[e.op])(to_ast_expr(e.args[0]), to_ast_expr(e.args[1]))
    if k == 'between':
        return ast.Between(*(to_ast_expr(a) for a in e.args))
    if k == 'and':
        return ast.And([to_ast_expr(a) for a in e.args])
    if k == 'or':
        return ast.Or([to_ast_expr(a) for a in e.args])
    if k == 'func':
        return ast.Function(e.name, [to_ast_expr(a) for a in e.args])
    if k == 'agg':
        if e.value == '*':
            return ast.Function(e.name, [ast.Asterisk()])
        return ast.Function(e.name, [to_ast_expr(a) for a in e.args])
    if k == 'attr':
        return ast.Attribute(to_ast_expr(e.args[0]), e.name)
    if k == 'sub':
        return ast.Subscript(to_ast_expr(e.args[0]), e.name)
    if k == 'subq':
        return to_ast(e.q, _ALIAS_ALL[-1])
    raise ValueError(k)


_ALIAS_ALL = [True]


def _key_ast(k):
    from beanquery.parser import ast
    if k.kind == 'index':
        return k.value
    if k.kind == 'name':
        return ast.Column(k.value)
    return to_ast_expr(k.value)


def to_ast(q, alias_all=True):
    """Build the beanquery AST of a Query. Every target gets an alias (its printed
    text) when alias_all, because an AST without parse positions has no source text."""
    from beanquery.parser import ast
    _ALIAS_ALL.append(alias_all)
    try:
        return _to_ast(q, alias_all)
    finally:
        _ALIAS_ALL.pop()


def _to_ast(q, alias_all):
    from beanquery.parser import ast
    if q.star:
        targets = ast.Asterisk()
    else:
        targets = []
        for t in q.targets:
            name = t.alias
            if name is None and alias_all and t.expr.kind != 'col':
                name = to_text_expr(t.expr)
            targets.append(ast.Target(to_ast_expr(t.expr), name))
    if q.table is not None:
        from_clause = ast.Table(q.table)
    elif q.subquery is not None:
        from_clause = to_ast(q.subquery, alias_all)
    elif q.from_ is not None:
        f = q.from_
        from_clause = ast.From(to_ast_expr(f.expr) if f.expr is not None else None, f.open, f.close, f.clear or None)
    else:
        from_clause = None
    group_by = None
    if q.group_by:
        group_by = ast.GroupBy([_key_ast(k) for k in q.group_by],
                               to_ast_expr(q.having) if q.having is not None else None)
    order_by = None
    if q.order_by:
        order_by = [ast.OrderBy(_key_ast(k), ast.Ordering.DESC if k.desc else ast.Ordering.ASC) for k in q.order_by]
    pivot_by = None
    if q.pivot_by:
        pivot_by = ast.PivotBy([_key_ast(k) for k in q.pivot_by])
    return ast.Select(targets, from_clause,
                      to_ast_expr(q.where) if q.where is not None else None,
                      group_by, order_by, pivot_by, q.limit, True if q.distinct else None)


def target_name(t):
    """The output name rule of the property: alias, else column name, else source text."""
    if t.alias is not None:
        return t.alias
    if t.expr.kind == 'col':
        return t.expr.name
    return to_text_expr(t.expr)


# ---------------------------------------------------------------------------
# BALANCES / JOURNAL / PRINT

class Stmt:
    """BALANCES [AT f] [FROM ...] [WHERE ...] | JOURNAL [account] [AT f] [FROM ...] | PRINT [FROM ...]"""
    __slots__ = ('kind', 'summary_func', 'from_', 'where', 'account')

    def __init__(self, kind, summary_func=None, from_=None, where=None, account=None):
        self.kind = kind
        self.summary_func = summary_func
        self.from_ = from_
        self.where = where
        self.account = account

    def key(self):
        return (self.kind, self.summary_func, self.from_.key() if self.from_ else None,
                self.where.key() if self.where is not None else None, self.account)

    def params(self):
        return []


def stmt_text(st, style=MINIMAL):
    sp = style.sp
    if isinstance(st, Query):
        return to_text(st, style)
    out = [style.kw(st.kind.upper())]
    if st.kind == 'journal' and st.account is not None:
        out.append(lit_text(st.account, style))
    if st.summary_func is not None and st.kind != 'print':
        out.append(style.kw('AT') + sp() + style.ident(st.summary_func))
    if st.from_ is not None:
        out.append(style.kw('FROM') + sp() + from_text(st.from_, style))
    if st.where is not None and st.kind == 'balances':
        out.append(style.kw('WHERE') + sp() + to_text_expr(st.where, style))
    return sp().join(out)


def stmt_ast(st):
    from beanquery.parser import ast
    if isinstance(st, Query):
        return to_ast(st, alias_all=False)
    _ALIAS_ALL.append(False)
    try:
        return _stmt_ast(st)
    finally:
        _ALIAS_ALL.pop()


def _stmt_ast(st):
    from beanquery.parser import ast
    f = st.from_
    from_clause = None
    if f is not None:
        from_clause = ast.From(to_ast_expr(f.expr) if f.expr is not None else None, f.open, f.close, f.clear or None)
    if st.kind == 'balances':
        return ast.Balances(st.summary_func, from_clause, to_ast_expr(st.where) if st.where is not None else None)
    if st.kind == 'journal':
        return ast.Journal(st.account, st.summary_func, from_clause)
    return ast.Print(from_clause)

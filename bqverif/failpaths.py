"""Error paths on a re-used cursor: a successful statement, partly fetched, followed by statements that are refused at
compile time or that raise part-way through the evaluation of their rows. What the cursor shows afterwards is handed to
the caller (C04: announced datatypes vs cells, C07: one value per described column, under the names of the statement
that produced the rows)."""
from . import engine, gen, model
from .ir import T_INT, T_STR, T_DATE, T_DEC

FIRST = [
    ('SELECT k, s, d FROM #f', ['k', 's', 'd']),
    ('SELECT dt, k + 1 AS n FROM #f', ['dt', 'n']),
    ('SELECT s AS a, s AS b, k, d, dt FROM #f ORDER BY k DESC', ['a', 'b', 'k', 'd', 'dt']),
    ('SELECT count(*) AS n, s FROM #f GROUP BY s', ['n', 's']),
]
# statements the compiler accepts and that raise while rows are evaluated (k >= 1 in the second row at the latest)
FAILING = [
    'SELECT date_add(dt, 100000000 * (k + 1)) AS x FROM #f',
    'SELECT k, str(k) ~ "(" AS m FROM #f',
    'SELECT s, d, k, splitcomp(s, "-", 3) AS c FROM #f',
    'SELECT k AS only, date_add(dt, 100000000 * k) AS x, s FROM #f WHERE k >= 0',
    'SELECT s, count(*) AS n, max(date_add(dt, 100000000 * k)) AS x FROM #f GROUP BY s',
]
REJECTED = ['SELECT nosuch FROM #f', 'SELECT k, s FROM #f GROUP BY 3', 'SELECT k +', 'SELECT sum(k), s FROM #f GROUP BY k']


def scenarios(rng, count):
    """Yields (label, first statement, expected names, fetched before, disturbing statement, kind, cursor description, remaining rows, raised)."""
    import datetime
    from decimal import Decimal
    for n in range(count):
        rows = [(i, f's-{i % 3}', Decimal(i) / 4, datetime.date(2020, 1, 1 + i)) for i in range(rng.randint(3, 9))]
        mt = model.ModelTable('f', [('k', T_INT), ('s', T_STR), ('d', T_DEC), ('dt', T_DATE)], rows)
        conn = engine.connection([mt])
        cur = conn.cursor()
        first, names = rng.choice(FIRST)
        cur.execute(first)
        fetched = rng.randint(0, 2)
        got = cur.fetchmany(fetched) if fetched else []
        for _ in range(rng.randint(1, 3)):
            kind = rng.choice(['failing', 'failing', 'rejected'])
            text = rng.choice(FAILING if kind == 'failing' else REJECTED)
            raised = None
            try:
                cur.execute(text)
            except Exception as exc:  # noqa: BLE001
                raised = exc
            desc = cur.description
            yield (f'{first} ; fetched {len(got)} ; {text}', first, names, len(got), text, kind, desc, cur, raised, len(rows))

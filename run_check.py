#!/usr/bin/env python3
"""Entry point of the beanquery runtime-monitoring checks.

    python3 run_check.py <ID> [--tier quick|thorough] [--replay FILE]
    python3 run_check.py --setup

Stdlib only; re-executes itself under /venv/bin/python (the interpreter that
has /repo installed in editable mode), so that every run imports /repo's
current working tree.
"""
import os
import sys

HERE = os.path.dirname(os.path.abspath(__file__))
VENV_PY = '/venv/bin/python'


def main():
    if os.environ.get('BQVERIF_REEXEC') != '1':
        py = VENV_PY if os.path.exists(VENV_PY) else sys.executable
        env = dict(os.environ)
        env['BQVERIF_REEXEC'] = '1'
        env.setdefault('PYTHONHASHSEED', '0')
        env['PYTHONDONTWRITEBYTECODE'] = '1'
        os.execve(py, [py, os.path.abspath(__file__), *sys.argv[1:]], env)
    sys.dont_write_bytecode = True
    sys.path.insert(0, HERE)
    from bqverif import core
    sys.exit(core.main(sys.argv[1:]))


if __name__ == '__main__':
    main()

#!/usr/bin/env python3
"""Run the checks against the independently written property-breaking changes under
/verif/seeded/<id>/ (patch.diff, demo.py, meta.json).

For each change: copy /repo to a scratch directory outside /repo and /verif, apply
the patch there, confirm (a) the demonstration fails with the change and passes on
the unmodified tree, (b) the repository's own test-suite still passes with the
change, then run the quick (or thorough) check of the property with
BEANQUERY_VERIF_REPO pointing at the copy. Writes seeded/REPORT.json.

    python3 tools/check_seeded.py [--only id[,id]] [--tier quick] [--no-tests] [-j N]
"""
import argparse
import concurrent.futures
import json
import os
import shutil
import subprocess
import sys
import tempfile
import time

HERE = os.path.dirname(os.path.dirname(os.path.abspath(__file__)))
REPO = '/repo'
ALWAYS_FAIL = json.load(open('/root/.vp/BASELINE.json'))['always_fail'] if os.path.exists('/root/.vp/BASELINE.json') else []


def deselect_args():
    out = []
    for t in ALWAYS_FAIL:
        mod, rest = t.split('::', 1) if '::' in t else (t, '')
        cls_path = mod.rsplit('.', 1)
        path = mod.replace('.', '/')
        # beanquery.query_render_test.TestX::test_y -> beanquery/query_render_test.py::TestX::test_y
        parts = mod.split('.')
        file = '/'.join(parts[:-1]) + '.py'
        out += ['--deselect', f'{file}::{parts[-1]}::{rest}']
    return out


def run_one(sid, args):
    d = os.path.join(HERE, 'seeded', sid)
    meta = json.load(open(os.path.join(d, 'meta.json')))
    res = {'id': sid, 'property': meta['property']}
    tmp = tempfile.mkdtemp(prefix='bqv-seed-', dir=os.environ.get('TMPDIR', '/tmp'))
    t0 = time.monotonic()
    try:
        copy = os.path.join(tmp, 'repo')
        shutil.copytree(REPO, copy, ignore=shutil.ignore_patterns('.git', '__pycache__', '*.egg-info'))
        p = subprocess.run(['patch', '-p1', '-s', '-i', os.path.join(d, 'patch.diff')], cwd=copy, capture_output=True, text=True)
        if p.returncode != 0:
            res['status'] = 'patch does not apply: ' + (p.stdout + p.stderr)[-300:]
            return res
        env = dict(os.environ)
        env.pop('BQVERIF_REEXEC', None)
        demo = os.path.join(d, 'demo.py')
        r_mod = subprocess.run(['/venv/bin/python', demo], cwd=tmp, env={**env, 'PYTHONPATH': copy}, capture_output=True, text=True, timeout=600)
        r_orig = subprocess.run(['/venv/bin/python', demo], cwd=tmp, env={**env, 'PYTHONPATH': REPO}, capture_output=True, text=True, timeout=600)
        res['demo_with_change_rc'] = r_mod.returncode
        res['demo_unchanged_rc'] = r_orig.returncode
        if not args.no_tests:
            t = subprocess.run(['/venv/bin/python', '-m', 'pytest', '-q', '-p', 'no:cacheprovider', 'beanquery', *deselect_args()],
                               cwd=copy, env={**env, 'PYTHONPATH': copy}, capture_output=True, text=True, timeout=1200)
            res['tests_rc'] = t.returncode
            res['tests_tail'] = t.stdout.strip().splitlines()[-1:] if t.stdout else []
        env['BEANQUERY_VERIF_REPO'] = copy
        env['BQVERIF_EVIDENCE_DIR'] = os.path.join(tmp, 'evidence')
        props = meta.get('checks') or [meta['property']]
        res['runs'] = {}
        caught = False
        for prop in props:
            for seed in args.seeds:
                p = subprocess.run(['python3', os.path.join(HERE, 'run_check.py'), prop, '--tier', args.tier],
                                   cwd=HERE, env={**env, 'VERIF_SEED': str(seed)}, capture_output=True, text=True, timeout=7200)
                lines = [l[:300] for l in p.stdout.splitlines() if l.startswith(('VIOLATION', '  violation', 'INCONCLUSIVE', 'HARNESS'))]
                res['runs'][f'{prop}/seed{seed}'] = {'rc': p.returncode, 'lines': lines[:4]}
                if p.returncode == 1 and any(l.startswith('VIOLATION') for l in lines):
                    caught = True
                    break
            if caught:
                break
        res['status'] = 'caught' if caught else 'MISSED'
    except Exception as e:  # noqa: BLE001
        res['status'] = f'error: {e!r}'
    finally:
        shutil.rmtree(tmp, ignore_errors=True)
        res['wall_s'] = round(time.monotonic() - t0, 1)
    return res


def main():
    ap = argparse.ArgumentParser()
    ap.add_argument('--only')
    ap.add_argument('--tier', default='quick')
    ap.add_argument('--no-tests', action='store_true')
    ap.add_argument('--seeds', default='0')
    ap.add_argument('-j', type=int, default=2)
    args = ap.parse_args()
    args.seeds = [int(s) for s in args.seeds.split(',')]
    base = os.path.join(HERE, 'seeded')
    ids = sorted(d for d in os.listdir(base) if os.path.isdir(os.path.join(base, d)) and os.path.exists(os.path.join(base, d, 'patch.diff')))
    if args.only:
        ids = [i for i in ids if i in set(args.only.split(','))]
    results = []
    with concurrent.futures.ThreadPoolExecutor(args.j) as ex:
        for r in ex.map(lambda i: run_one(i, args), ids):
            print(f"{r['id']:28s} {r['property']} {r['status']}  demo(with/without)={r.get('demo_with_change_rc')}/{r.get('demo_unchanged_rc')} "
                  f"tests={r.get('tests_rc')} ({r.get('wall_s')}s)", flush=True)
            if r['status'] != 'caught':
                print('    ', json.dumps(r.get('runs'))[:500])
            results.append(r)
    path = os.path.join(base, 'REPORT.json')
    old = {}
    if os.path.exists(path):
        old = {r['id']: r for r in json.load(open(path))['results']}
    for r in results:
        old[r['id']] = r
    allr = sorted(old.values(), key=lambda r: r['id'])
    json.dump({'results': allr, 'caught': sum(r['status'] == 'caught' for r in allr), 'total': len(allr)}, open(path, 'w'), indent=1)
    return 0


if __name__ == '__main__':
    sys.exit(main())

#!/usr/bin/env python3
"""Regenerate /verif/MANIFEST.json from the table below (keeps it schema-valid)."""
import json
import os

HERE = os.path.dirname(os.path.dirname(os.path.abspath(__file__)))

BASELINE_OFF = ("cd /repo && env -u BEANQUERY_VERIF /venv/bin/python -m pytest -ra -q -p no:cacheprovider "
                "--timeout=900 --continue-on-collection-errors")

TRUSTED = ('Trusted base: CPython 3.12, decimal/datetime/re/csv, dateutil, Beancount 3.2.3, TatSu 5.7.4 and the '
           "harness's own reference models (validated by agreement with the engine on the unchanged tree and by the "
           'seeded-defect library under /verif/seeded and /verif/mutants). Held on the executions described in the '
           'evidence file only; never a proof.')

# id -> (technique, level text, design ref)
CHECKS = {}


def check(pid, technique, text, ref):
    CHECKS[pid] = (technique, text, ref)


NOT_APPLICABLE = {}


def load_tables():
    path = os.path.join(HERE, 'tools', 'manifest_table.json')
    with open(path) as f:
        t = json.load(f)
    for pid, e in t['checks'].items():
        check(pid, e['technique'], e['text'], e.get('design_ref', f'DESIGN.md section 3, {pid}'))
    NOT_APPLICABLE.update(t.get('not_applicable', {}))
    return t


def main():
    t = load_tables()
    checks = []
    for pid in sorted(CHECKS):
        technique, text, ref = CHECKS[pid]
        checks.append({
            'property_id': pid,
            'quick_cmd': f'python3 run_check.py {pid} --tier quick',
            'thorough_cmd': f'python3 run_check.py {pid} --tier thorough',
            'evidence_file': f'/verif/evidence/{pid}.json',
            'replay_cmd_template': f'python3 run_check.py {pid} --replay {{path}}',
            'engine': 'bqverif',
            'level_claimed': {'category': 'exploration', 'text': text, 'design_ref': ref},
            'level_note': TRUSTED,
            'technique': technique,
        })
    manifest = {
        'version': 1,
        'setup_cmd': 'python3 run_check.py --setup',
        'hooks': {
            'guard': 'BEANQUERY_VERIF',
            'enable': ('none needed: every monitor (node-evaluation hook, aggregator protocol monitor, running-balance '
                       'monitor, scheduler points, contracts) is attached from the harness by wrapping the imported '
                       'beanquery objects at start-up; /repo carries no instrumentation'),
            'baseline_off_cmd': BASELINE_OFF,
            'source_commits': t.get('hook_commits', []),
            'add_only': True,
        },
        'engines': [{
            'name': 'bqverif',
            'path': '/verif/bqverif',
            'serves_properties': sorted(CHECKS),
            'kind_free_text': ('runtime monitoring: hostile generated workloads run through the real engine under '
                               'harness-attached monitors; oracles are executable reference models, metamorphic '
                               'relations between recorded executions and invariants on hooked state'),
        }],
        'checks': checks,
        'not_applicable': [{'property_id': k, 'reason': v} for k, v in sorted(NOT_APPLICABLE.items())],
        'notes': t.get('notes', ''),
    }
    with open(os.path.join(HERE, 'MANIFEST.json'), 'w') as f:
        json.dump(manifest, f, indent=1)
    print('wrote MANIFEST.json with', len(checks), 'checks;', len(NOT_APPLICABLE), 'not applicable')


if __name__ == '__main__':
    main()

#!/bin/sh
# Run the repository's pinned baseline with the guard off and compare with BASELINE.json's stable_pass list.
cd /repo && env -u BEANQUERY_VERIF /venv/bin/python -m pytest -ra -q -p no:cacheprovider --timeout=900 --continue-on-collection-errors --junitxml=/tmp/bq-baseline.xml >/tmp/bq-baseline.log 2>&1
/venv/bin/python - <<'PY'
import json, xml.etree.ElementTree as ET
base = set(json.load(open('/root/.vp/BASELINE.json'))['stable_pass'])
passed = set()
for tc in ET.parse('/tmp/bq-baseline.xml').getroot().iter('testcase'):
    if not any(c.tag in ('failure', 'error', 'skipped') for c in tc):
        passed.add(f"{tc.get('classname')}::{tc.get('name')}")
missing = sorted(base - passed)
print(f'baseline: {len(base & passed)}/{len(base)} stable tests pass; newly failing: {missing}')
raise SystemExit(1 if missing else 0)
PY

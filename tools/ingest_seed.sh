#!/bin/sh
# usage: tools/ingest_seed.sh cNN name   — copy a sub-agent's deliverables into seeded/<name>/
id=$1; name=$2
cd "$(dirname "$0")/.."
mkdir -p seeded/$name && cp /tmp/seed/out-$id/patch.diff /tmp/seed/out-$id/demo.py /tmp/seed/out-$id/meta.json seeded/$name/ && echo ingested $name

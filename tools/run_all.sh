#!/bin/sh
# Run every check (tier $1, seed $2; optionally only the properties listed in $3) and print one summary line per check.
tier=${1:-quick}; seed=${2:-0}
props=${3:-"C01 C02 C03 C04 C05 C06 C07 C08 C09 C10 C11 C12 C13 C14 C15 C16 C17 C18 C19 C20"}
cd "$(dirname "$0")/.."
for p in $props; do
  start=$(date +%s)
  out=$(VERIF_SEED=$seed python3 run_check.py $p --tier $tier 2>&1)
  rc=$?
  end=$(date +%s)
  echo "== $p tier=$tier seed=$seed rc=$rc wall=$((end-start))s"
  echo "$out" | grep -E "^\[$p\] tier|violation mech|VIOLATION|INCONCLUSIVE|HARNESS-ERROR" | cut -c1-500
done

#!/usr/bin/env python3
"""Self-validation of the monitors against a library of property-breaking mutants.

Each mutant (mutants/mutants.json) is a textual replacement in one file of
beancount/beanquery that breaks one property while compiling and passing the
existing tests. For each mutant: copy /repo to a scratch directory outside /repo
and /verif, apply it, run the quick check with BEANQUERY_VERIF_REPO pointing at the
copy (evidence redirected to a scratch directory), expect exit 1 + VIOLATION line,
remove the copy. Writes mutants/REPORT.json.

    python3 tools/validate_mutants.py [--only ID[,ID]] [--prop C01] [--tests] [-j N]
"""
import argparse
import concurrent.futures
import json
import os
import shutil
import subprocess
import sys
import tempfile
import time

HERE = os.path.dirname(os.path.dirname(os.path.abspath(__file__)))
REPO = '/repo'


def run_one(m, args):
    t0 = time.monotonic()
    tmp = tempfile.mkdtemp(prefix='bqv-mut-', dir=os.environ.get('TMPDIR', '/tmp'))
    res = {'id': m['id'], 'property': m['property']}
    try:
        copy = os.path.join(tmp, 'repo')
        shutil.copytree(REPO, copy, ignore=shutil.ignore_patterns('.git', '__pycache__', '*.egg-info'))
        for ch in m.get('changes') or [m]:
            path = os.path.join(copy, ch['file'])
            src = open(path).read()
            if src.count(ch['old']) != 1:
                res['status'] = f"not-applicable: 'old' occurs {src.count(ch['old'])} times in {ch['file']}"
                return res
            open(path, 'w').write(src.replace(ch['old'], ch['new']))
        if m.get('regen_parser'):
            # the mutant edits the grammar: regenerate parser.py from it, as a developer would
            subprocess.run(['/venv/bin/python', '-c',
                            "import tatsu;g=open('beanquery/parser/bql.ebnf').read();"
                            "open('beanquery/parser/parser.py','w').write(tatsu.to_python_sourcecode(g))"],
                           cwd=copy, check=True, timeout=120)
        env = dict(os.environ)
        env['BEANQUERY_VERIF_REPO'] = copy
        env['BQVERIF_EVIDENCE_DIR'] = os.path.join(tmp, 'evidence')
        env.pop('BQVERIF_REEXEC', None)
        if args.tests:
            t = subprocess.run(['/venv/bin/python', '-m', 'pytest', '-q', '-x', '-p', 'no:cacheprovider',
                                '--deselect', 'beanquery/query_render_test.py', 'beanquery'],
                               cwd=copy, env={**env, 'PYTHONPATH': copy}, capture_output=True, text=True, timeout=900)
            res['tests_rc'] = t.returncode
            res['tests_tail'] = t.stdout[-300:]
        props = m.get('checks') or [m['property']]
        res['runs'] = {}
        caught = False
        for prop in props:
            p = subprocess.run(['python3', os.path.join(HERE, 'run_check.py'), prop, '--tier', args.tier],
                               cwd=HERE, env=env, capture_output=True, text=True, timeout=3600)
            lines = [l for l in p.stdout.splitlines() if l.startswith(('VIOLATION', '  violation', 'KNOWN', 'INCONCLUSIVE', 'HARNESS'))]
            res['runs'][prop] = {'rc': p.returncode, 'lines': lines[:6]}
            if p.returncode == 1 and any(l.startswith('VIOLATION') for l in lines):
                caught = True
        res['status'] = 'caught' if caught else 'MISSED'
    except Exception as e:  # noqa: BLE001
        res['status'] = f'error: {e!r}'
    finally:
        shutil.rmtree(tmp, ignore_errors=True)
        res['wall_s'] = round(time.monotonic() - t0, 1)
    return res


def main():
    ap = argparse.ArgumentParser()
    ap.add_argument('--only')
    ap.add_argument('--prop')
    ap.add_argument('--tests', action='store_true')
    ap.add_argument('--tier', default='quick')
    ap.add_argument('-j', type=int, default=2)
    args = ap.parse_args()
    muts = json.load(open(os.path.join(HERE, 'mutants', 'mutants.json')))
    if args.only:
        ids = set(args.only.split(','))
        muts = [m for m in muts if m['id'] in ids]
    if args.prop:
        muts = [m for m in muts if m['property'] == args.prop]
    results = []
    with concurrent.futures.ThreadPoolExecutor(args.j) as ex:
        for r in ex.map(lambda m: run_one(m, args), muts):
            print(f"{r['id']:40s} {r['property']} {r['status']} ({r.get('wall_s')}s)", flush=True)
            if r['status'] != 'caught':
                print('   ', json.dumps(r.get('runs'))[:600])
            results.append(r)
    report_path = os.path.join(HERE, 'mutants', 'REPORT.json')
    old = {}
    if os.path.exists(report_path) and (args.only or args.prop):
        old = {r['id']: r for r in json.load(open(report_path))['results']}
    for r in results:
        old[r['id']] = r
    allr = sorted(old.values(), key=lambda r: r['id'])
    json.dump({'results': allr, 'caught': sum(r['status'] == 'caught' for r in allr), 'total': len(allr)},
              open(report_path, 'w'), indent=1)
    missed = [r['id'] for r in results if r['status'] != 'caught']
    print(f'{len(results) - len(missed)}/{len(results)} caught; missed: {missed}')
    return 1 if missed else 0


if __name__ == '__main__':
    sys.exit(main())

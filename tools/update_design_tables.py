#!/usr/bin/env python3
"""Regenerate the mutant / seeded-change tables of DESIGN.md from the reports."""
import json
import os
import re

HERE = os.path.dirname(os.path.dirname(os.path.abspath(__file__)))


def mutants_table():
    muts = json.load(open(os.path.join(HERE, 'mutants', 'mutants.json')))
    rep = {}
    p = os.path.join(HERE, 'mutants', 'REPORT.json')
    if os.path.exists(p):
        rep = {r['id']: r for r in json.load(open(p))['results']}
    lines = ['| mutant | property | what it breaks | quick check |', '|---|---|---|---|']
    for m in sorted(muts, key=lambda m: (m['property'], m['id'])):
        st = rep.get(m['id'], {}).get('status', 'not run')
        lines.append(f"| {m['id']} | {m['property']} | {m.get('note', '')} | {st} |")
    caught = sum(1 for m in muts if rep.get(m['id'], {}).get('status') == 'caught')
    lines.append('')
    lines.append(f'{caught} of {len(muts)} mutants caught by the quick tier of their property\'s check.')
    return '\n'.join(lines)


def seeded_table():
    base = os.path.join(HERE, 'seeded')
    rep = {}
    p = os.path.join(base, 'REPORT.json')
    if os.path.exists(p):
        rep = {r['id']: r for r in json.load(open(p))['results']}
    lines = ['| id | property | change | needs, to manifest | checks |', '|---|---|---|---|---|']
    n = 0
    for d in sorted(os.listdir(base)) if os.path.isdir(base) else []:
        mp = os.path.join(base, d, 'meta.json')
        if not os.path.exists(mp):
            continue
        m = json.load(open(mp))
        r = rep.get(d, {})
        n += 1
        lines.append(f"| {d} | {m['property']} | {m.get('summary', '')} | {m.get('needs', '')} | {r.get('status', 'not run')}"
                     f"{(' — ' + m['caught_by']) if m.get('caught_by') else ''} |")
    if n == 0:
        lines.append('| (none yet) | | | | |')
    return '\n'.join(lines)


def main():
    path = os.path.join(HERE, 'DESIGN.md')
    s = open(path).read()
    s = re.sub(r'<!-- MUTANTS:BEGIN -->.*?<!-- MUTANTS:END -->', lambda m: '<!-- MUTANTS:BEGIN -->\n' + mutants_table() + '\n<!-- MUTANTS:END -->', s, flags=re.S)
    s = re.sub(r'<!-- SEEDED:BEGIN -->.*?<!-- SEEDED:END -->', lambda m: '<!-- SEEDED:BEGIN -->\n' + seeded_table() + '\n<!-- SEEDED:END -->', s, flags=re.S)
    open(path, 'w').write(s)
    print('DESIGN.md tables updated')


if __name__ == '__main__':
    main()
